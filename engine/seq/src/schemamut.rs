//! Structural single mutations of a schema tree (C06: a valid file whose schema section was
//! changed to another *well-formed* schema must be accepted or rejected, never crash the loader).
//! Every node of the tree is visited; for a node every replacement of the fixed menu below is
//! produced (one mutation per output tree).
use vmodel::schema::{RField, RVariant, RS};

fn leaf_menu() -> Vec<(&'static str, RS)> {
    vec![
        ("undefined", RS::Undefined),
        ("zerosize", RS::ZeroSize),
        ("u8", RS::Prim(3)),
        ("u64", RS::Prim(6)),
        ("string", RS::PrimString(0)),
        ("str", RS::Str),
        ("custom", RS::Custom("x".into())),
        ("recursion0", RS::Recursion(0)),
        ("recursion1", RS::Recursion(1)),
        ("recursion9", RS::Recursion(9)),
        ("recursion_max", RS::Recursion(u64::MAX)),
        ("ioerror", RS::StdIoError),
        ("uninit", RS::UninitSlice),
        ("timestamp", RS::UtcTimestamp),
    ]
}

fn pick<T>(n: usize, f: impl Fn(usize) -> T) -> Vec<(usize, T)> {
    // first three and last two positions of a long list, every position of a short one
    let mut idx: Vec<usize> = (0..n.min(3)).chain(n.saturating_sub(2)..n).collect();
    idx.sort();
    idx.dedup();
    idx.into_iter().map(|i| (i, f(i))).collect()
}

fn field_list_mutations(fields: &[RField]) -> Vec<(String, Vec<RField>)> {
    let mut out = vec![];
    let extra = RField {
        name: "extra".into(),
        value: RS::Prim(3),
        offset: None,
    };
    let mut a = fields.to_vec();
    a.push(extra.clone());
    out.push(("add_field_end".to_string(), a));
    let mut a = fields.to_vec();
    a.insert(0, extra);
    out.push(("add_field_start".to_string(), a));
    for (i, _) in pick(fields.len(), |i| i) {
        let mut a = fields.to_vec();
        a.remove(i);
        out.push((format!("remove_field{}", i), a));
        let mut a = fields.to_vec();
        a[i].name.push('x');
        out.push((format!("rename_field{}", i), a));
        let mut a = fields.to_vec();
        a[i].offset = Some(a[i].offset.map(|o| o + 1).unwrap_or(0));
        out.push((format!("offset_field{}", i), a));
        let mut a = fields.to_vec();
        a[i].offset = None;
        out.push((format!("no_offset_field{}", i), a));
    }
    if fields.len() >= 2 {
        let mut a = fields.to_vec();
        a.swap(0, 1);
        out.push(("swap_fields01".to_string(), a));
    }
    for (i, _) in pick(fields.len(), |i| i) {
        for (l, m) in mutations(&fields[i].value) {
            let mut a = fields.to_vec();
            a[i].value = m;
            out.push((format!("field{}.{}", i, l), a));
        }
    }
    out
}

/// all single structural mutations of `s` (label, mutated tree)
pub fn mutations(s: &RS) -> Vec<(String, RS)> {
    let mut out: Vec<(String, RS)> = vec![];
    for (l, m) in leaf_menu() {
        if &m != s {
            out.push((format!("replace:{}", l), m));
        }
    }
    // wrappers around the node
    out.push(("wrap:option".into(), RS::Option(Box::new(s.clone()))));
    out.push(("wrap:boxed".into(), RS::Boxed(Box::new(s.clone()))));
    out.push(("wrap:vector".into(), RS::Vector(Box::new(s.clone()), 0)));
    out.push(("wrap:array1".into(), RS::Array(1, Box::new(s.clone()))));
    out.push(("wrap:slice".into(), RS::Slice(Box::new(s.clone()))));
    out.push(("wrap:reference".into(), RS::Reference(Box::new(s.clone()))));
    match s {
        RS::Struct { name, size, align, fields } => {
            for (l, f) in field_list_mutations(fields) {
                out.push((
                    l,
                    RS::Struct {
                        name: name.clone(),
                        size: *size,
                        align: *align,
                        fields: f,
                    },
                ));
            }
            for (l, sz, al) in [
                ("size+1", size.map(|x| x + 1).or(Some(1)), *align),
                ("size_none", None, *align),
                ("size_max", Some(u64::MAX), *align),
                ("align*2", *size, align.map(|x| x * 2).or(Some(1))),
                ("align0", *size, Some(0)),
                ("align_none", *size, None),
            ] {
                out.push((
                    l.to_string(),
                    RS::Struct {
                        name: name.clone(),
                        size: sz,
                        align: al,
                        fields: fields.clone(),
                    },
                ));
            }
            out.push((
                "rename_struct".into(),
                RS::Struct {
                    name: format!("{}x", name),
                    size: *size,
                    align: *align,
                    fields: fields.clone(),
                },
            ));
        }
        RS::Enum {
            name,
            variants,
            discr_size,
            explicit_repr,
            size,
            align,
        } => {
            let mk = |v: Vec<RVariant>, ds: u8, er: bool, sz: Option<u64>, al: Option<u64>| RS::Enum {
                name: name.clone(),
                variants: v,
                discr_size: ds,
                explicit_repr: er,
                size: sz,
                align: al,
            };
            let base = |v: Vec<RVariant>| mk(v, *discr_size, *explicit_repr, *size, *align);
            let next_discr = variants.iter().map(|v| v.discr).max().map(|d| d.wrapping_add(1)).unwrap_or(0);
            // an extra variant at the end (unit, with a field, and a copy of the last one)
            let mut v = variants.clone();
            v.push(RVariant {
                name: "Extra".into(),
                discr: next_discr,
                fields: vec![],
            });
            out.push(("add_variant_end".into(), base(v)));
            let mut v = variants.clone();
            v.push(RVariant {
                name: "Extra".into(),
                discr: next_discr,
                fields: vec![RField {
                    name: "0".into(),
                    value: RS::Prim(3),
                    offset: None,
                }],
            });
            out.push(("add_variant_end_with_field".into(), base(v)));
            if let Some(last) = variants.last() {
                let mut v = variants.clone();
                v.push(last.clone());
                out.push(("duplicate_last_variant".into(), base(v)));
                let mut v = variants.clone();
                let mut twice = last.clone();
                twice.name.push('2');
                twice.discr = next_discr;
                v.push(twice.clone());
                twice.name.push('3');
                twice.discr = next_discr.wrapping_add(1);
                v.push(twice);
                out.push(("add_two_variants_end".into(), base(v)));
            }
            let mut v = variants.clone();
            v.insert(
                0,
                RVariant {
                    name: "Extra".into(),
                    discr: next_discr,
                    fields: vec![],
                },
            );
            out.push(("add_variant_start".into(), base(v)));
            out.push(("no_variants".into(), base(vec![])));
            for (i, _) in pick(variants.len(), |i| i) {
                let mut v = variants.clone();
                v.remove(i);
                out.push((format!("remove_variant{}", i), base(v)));
                let mut v = variants.clone();
                v[i].name.push('x');
                out.push((format!("rename_variant{}", i), base(v)));
                for d in [0u8, 1, 255, variants[i].discr.wrapping_add(1)] {
                    if d != variants[i].discr {
                        let mut v = variants.clone();
                        v[i].discr = d;
                        out.push((format!("variant{}_discr{}", i, d), base(v)));
                    }
                }
                for (l, f) in field_list_mutations(&variants[i].fields) {
                    let mut v = variants.clone();
                    v[i].fields = f;
                    out.push((format!("variant{}.{}", i, l), base(v)));
                }
            }
            if variants.len() >= 2 {
                let mut v = variants.clone();
                v.swap(0, 1);
                out.push(("swap_variants01".into(), base(v)));
            }
            for ds in [0u8, 1, 2, 3, 4, 8, 255] {
                if ds != *discr_size {
                    out.push((format!("discr_size{}", ds), mk(variants.clone(), ds, *explicit_repr, *size, *align)));
                }
            }
            out.push(("toggle_explicit_repr".into(), mk(variants.clone(), *discr_size, !*explicit_repr, *size, *align)));
            out.push(("enum_size+1".into(), mk(variants.clone(), *discr_size, *explicit_repr, size.map(|x| x + 1).or(Some(1)), *align)));
            out.push(("enum_size_none".into(), mk(variants.clone(), *discr_size, *explicit_repr, None, None)));
            out.push(("enum_align0".into(), mk(variants.clone(), *discr_size, *explicit_repr, *size, Some(0))));
        }
        RS::Prim(c) => {
            for k in vmodel::schema::PRIM_CODES {
                if k != *c {
                    out.push((format!("prim{}", k), RS::Prim(k)));
                }
            }
        }
        RS::PrimString(l) => {
            for k in 0..=8u8 {
                if k != *l {
                    out.push((format!("string_layout{}", k), RS::PrimString(k)));
                }
            }
        }
        RS::Vector(inner, l) => {
            out.push(("unwrap".into(), (**inner).clone()));
            out.push(("vector_to_array0".into(), RS::Array(0, inner.clone())));
            out.push(("vector_to_array3".into(), RS::Array(3, inner.clone())));
            out.push(("vector_to_slice".into(), RS::Slice(inner.clone())));
            for k in 0..=8u8 {
                if k != *l {
                    out.push((format!("vector_layout{}", k), RS::Vector(inner.clone(), k)));
                }
            }
            for (lbl, m) in mutations(inner) {
                out.push((format!("elem.{}", lbl), RS::Vector(Box::new(m), *l)));
            }
        }
        RS::Array(n, inner) => {
            out.push(("unwrap".into(), (**inner).clone()));
            for k in [0u64, 1, n.wrapping_sub(1), n + 1, 1 << 32, u64::MAX] {
                if k != *n {
                    out.push((format!("array_len{}", k), RS::Array(k, inner.clone())));
                }
            }
            out.push(("array_to_vector".into(), RS::Vector(inner.clone(), 0)));
            for (lbl, m) in mutations(inner) {
                out.push((format!("elem.{}", lbl), RS::Array(*n, Box::new(m))));
            }
        }
        RS::Option(inner) | RS::Boxed(inner) | RS::Slice(inner) | RS::Reference(inner) => {
            out.push(("unwrap".into(), (**inner).clone()));
            for (lbl, m) in mutations(inner) {
                let mi = Box::new(m);
                out.push((
                    format!("inner.{}", lbl),
                    match s {
                        RS::Option(_) => RS::Option(mi),
                        RS::Boxed(_) => RS::Boxed(mi),
                        RS::Slice(_) => RS::Slice(mi),
                        _ => RS::Reference(mi),
                    },
                ));
            }
        }
        _ => {}
    }
    out
}
