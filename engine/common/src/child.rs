//! Process isolation: sweeps run in single-threaded child processes so that an abort (failed
//! allocation, UB precondition check, segfault) kills one child, is attributed to the state
//! that was executing, and the sweep resumes behind it.
use std::io::{BufRead, BufReader, Read};
use std::process::{Command, Stdio};
use std::sync::atomic::{AtomicUsize, Ordering};

const CAP: usize = 1 << 16;
static mut STATE: [u8; CAP] = [0; CAP];
static STATE_LEN: AtomicUsize = AtomicUsize::new(0);

/// Record the state about to be executed (cheap: a memcpy).
pub fn set_state(desc: &str) {
    let b = desc.as_bytes();
    let n = b.len().min(CAP);
    unsafe {
        let p = std::ptr::addr_of_mut!(STATE) as *mut u8;
        std::ptr::copy_nonoverlapping(b.as_ptr(), p, n);
    }
    STATE_LEN.store(n, Ordering::Release);
    // watchdog: one state that runs longer than this is a hang (SIGALRM ends the child with the
    // state attributed like any other crash); re-armed by every new state
    let secs = WATCHDOG_SECS.load(Ordering::Relaxed);
    if secs > 0 {
        unsafe {
            libc::alarm(secs as libc::c_uint);
        }
    }
}
/// (re-)arm a one-shot watchdog for the operation that starts now (0 disarms)
pub fn arm(secs: u32) {
    unsafe {
        libc::alarm(secs as libc::c_uint);
    }
}
static WATCHDOG_SECS: AtomicUsize = AtomicUsize::new(0);
/// arm the per-state watchdog of this (child) process
pub fn set_watchdog(secs: usize) {
    WATCHDOG_SECS.store(secs, Ordering::Relaxed);
}

extern "C" fn on_fatal(sig: libc::c_int) {
    unsafe {
        let head = b"\nCRASH-STATE ";
        libc::write(2, head.as_ptr() as *const libc::c_void, head.len());
        let n = STATE_LEN.load(Ordering::Acquire);
        let p = std::ptr::addr_of!(STATE) as *const u8;
        libc::write(2, p as *const libc::c_void, n);
        let tail = b"\n";
        libc::write(2, tail.as_ptr() as *const libc::c_void, 1);
        libc::_exit(128 + sig);
    }
}

pub fn install_crash_handler() {
    unsafe {
        for s in [libc::SIGABRT, libc::SIGSEGV, libc::SIGBUS, libc::SIGILL, libc::SIGFPE, libc::SIGALRM] {
            libc::signal(s, on_fatal as usize);
        }
    }
}

/// Limit the address space of this (child) process so that absurd allocations fail fast.
pub fn limit_memory(bytes: u64) {
    unsafe {
        let lim = libc::rlimit {
            rlim_cur: bytes,
            rlim_max: bytes,
        };
        libc::setrlimit(libc::RLIMIT_AS, &lim);
    }
}

/// Limit the address space to what the process maps right now plus `extra` bytes (the size of the
/// binary and of its tables differs between tiers; the head-room for the code under test must not).
pub fn limit_memory_above_current(extra: u64) {
    let pages: u64 = std::fs::read_to_string("/proc/self/statm").ok().and_then(|s| s.split_whitespace().next().and_then(|x| x.parse().ok())).unwrap_or(0);
    limit_memory(pages * 4096 + extra);
}

pub struct Crash {
    pub worker: usize,
    pub status: String,
    /// state recorded by the child's signal handler (may be empty)
    pub state: String,
    pub stderr_tail: String,
}

/// Run `n` workers in parallel. Each worker is this executable invoked with
/// `base_args + ["--child", k, n, "--resume-after", <pos or -1>]`. Lines printed by children are
/// handed to `on_line(worker, line)`; a line `D <pos>` marks entry `pos` as finished. A crashed
/// child is reported through `on_crash` and restarted behind the entry that crashed (the first
/// unfinished one).
pub fn run_workers(
    n: usize,
    base_args: &[String],
    mut on_line: impl FnMut(usize, &str) + Send,
    mut on_crash: impl FnMut(Crash) + Send,
    max_restarts: usize,
) {
    let exe = std::env::current_exe().expect("current_exe");
    let (tx, rx) = std::sync::mpsc::channel::<(usize, Result<String, Crash>)>();
    std::thread::scope(|s| {
        for k in 0..n {
            let tx = tx.clone();
            let exe = exe.clone();
            let base_args = base_args.to_vec();
            s.spawn(move || {
                let mut resume_after: i64 = -1;
                let mut resume_sno: u64 = 0;
                let mut restarts = 0;
                loop {
                    let mut child = Command::new(&exe)
                        .args(&base_args)
                        .args(["--child", &k.to_string(), &n.to_string(), "--resume-after", &resume_after.to_string(), "--resume-sno", &resume_sno.to_string()])
                        .env("RUST_BACKTRACE", "0")
                        .stdout(Stdio::piped())
                        .stderr(Stdio::piped())
                        .spawn()
                        .expect("spawn child");
                    let stdout = child.stdout.take().unwrap();
                    let mut stderr = child.stderr.take().unwrap();
                    let errh = std::thread::spawn(move || {
                        let mut buf = Vec::new();
                        let _ = stderr.read_to_end(&mut buf);
                        buf
                    });
                    let mut current: i64 = resume_after;
                    for line in BufReader::new(stdout).lines() {
                        let Ok(line) = line else { break };
                        if let Some(rest) = line.strip_prefix("B ") {
                            // entry `pos` begins
                            current = rest.trim().parse().unwrap_or(current);
                            continue;
                        }
                        let _ = tx.send((k, Ok(line)));
                    }
                    let status = child.wait().expect("wait child");
                    let err = errh.join().unwrap_or_default();
                    if status.success() {
                        break;
                    }
                    let err = String::from_utf8_lossy(&err).to_string();
                    let state = err
                        .rsplit("CRASH-STATE ")
                        .next()
                        .filter(|_| err.contains("CRASH-STATE "))
                        .map(|s| s.lines().next().unwrap_or("").to_string())
                        .unwrap_or_default();
                    let tail: String = err.chars().rev().take(1500).collect::<String>().chars().rev().collect();
                    let _ = tx.send((
                        k,
                        Err(Crash {
                            worker: k,
                            status: format!("{:?}", status),
                            state: state.clone(),
                            stderr_tail: tail,
                        }),
                    ));
                    restarts += 1;
                    // resume at the crashed entry, behind the crashed state (sno) if the child
                    // told us which one it was; otherwise behind the whole entry
                    let num = |key: &str| -> Option<u64> {
                        state.split_whitespace().find_map(|w| w.strip_prefix(key)).and_then(|x| x.parse().ok())
                    };
                    let (p, sno) = match (num("pos="), num("sno=")) {
                        (Some(p), Some(s)) => (p as i64, s),
                        _ => (current + 1, 0),
                    };
                    if restarts > max_restarts || (p, sno) <= (resume_after, resume_sno) {
                        break;
                    }
                    resume_after = p;
                    resume_sno = sno;
                }
            });
        }
        drop(tx);
        for (k, msg) in rx {
            match msg {
                Ok(line) => on_line(k, &line),
                Err(c) => on_crash(c),
            }
        }
    });
}
