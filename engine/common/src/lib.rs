//! Shared plumbing of all engines: tier/seed handling, violation bookkeeping, known-findings
//! matching, replay files and the evidence writer.
//!
//! Verdict interface (see DESIGN.md §2):
//!   exit 0  property held on everything explored (KNOWN-FINDING lines may be printed)
//!   exit 1  + `VIOLATION property=<id> replay=<path>` for every (distinct) unknown violation
//!   exit 2  + `MACHINERY-ERROR ...` for anything that is not a verdict
use serde_json::{json, Map, Value};
use std::collections::{BTreeMap, BTreeSet};
use std::path::{Path, PathBuf};
use std::time::Instant;

pub use serde_json;
pub mod child;

#[derive(Clone, Copy, PartialEq, Eq, Debug)]
pub enum Tier {
    Quick,
    Thorough,
}
impl Tier {
    pub fn name(self) -> &'static str {
        match self {
            Tier::Quick => "quick",
            Tier::Thorough => "thorough",
        }
    }
    pub fn pick<T>(self, quick: T, thorough: T) -> T {
        match self {
            Tier::Quick => quick,
            Tier::Thorough => thorough,
        }
    }
}

pub fn verif_root() -> PathBuf {
    if let Ok(p) = std::env::var("VERIF_ROOT") {
        return PathBuf::from(p);
    }
    PathBuf::from("/verif")
}

/// A scratch directory under /verif/.work (never /tmp), removed by `Scratch::drop`.
pub struct Scratch(pub PathBuf);
impl Scratch {
    pub fn new(tag: &str) -> Scratch {
        let p = verif_root()
            .join(".work")
            .join(format!("{}-{}", tag, std::process::id()));
        let _ = std::fs::remove_dir_all(&p);
        std::fs::create_dir_all(&p).expect("create scratch dir");
        Scratch(p)
    }
    pub fn path(&self) -> &Path {
        &self.0
    }
}
impl Drop for Scratch {
    fn drop(&mut self) {
        let _ = std::fs::remove_dir_all(&self.0);
    }
}

/// Command line shared by every engine binary: `<bin> <Cxx> [--tier quick|thorough] [--replay path]`.
pub struct Args {
    pub property: String,
    pub tier: Tier,
    pub seed: u64,
    pub replay: Option<PathBuf>,
    pub extra: Vec<String>,
}
pub fn parse_args() -> Args {
    let mut it = std::env::args().skip(1);
    let mut property = String::new();
    let mut tier = match std::env::var("VERIF_TIER").ok().as_deref() {
        Some("thorough") => Tier::Thorough,
        _ => Tier::Quick,
    };
    let mut replay = None;
    let mut extra = vec![];
    while let Some(a) = it.next() {
        match a.as_str() {
            "--tier" => {
                tier = match it.next().as_deref() {
                    Some("thorough") => Tier::Thorough,
                    Some("quick") => Tier::Quick,
                    other => machinery_error(&format!("bad --tier {:?}", other)),
                }
            }
            "--replay" => replay = it.next().map(PathBuf::from),
            _ if property.is_empty() && !a.starts_with("--") => property = a,
            _ => extra.push(a),
        }
    }
    let seed = std::env::var("VERIF_SEED")
        .ok()
        .and_then(|s| s.parse().ok())
        .unwrap_or(0);
    if property.is_empty() {
        machinery_error("missing property id");
    }
    Args {
        property,
        tier,
        seed,
        replay,
        extra,
    }
}

pub fn machinery_error(msg: &str) -> ! {
    println!("MACHINERY-ERROR {}", msg);
    eprintln!("MACHINERY-ERROR {}", msg);
    std::process::exit(2)
}

/// One failing case. `tags` are the structural features known-findings predicates are matched on;
/// a tag value is a comma separated set.
#[derive(Clone, Debug)]
pub struct Violation {
    pub oracle: String,
    pub tags: BTreeMap<String, String>,
    pub summary: String,
    pub case: Value,
}

#[derive(Clone, Debug)]
struct Known {
    id: String,
    property: String,
    status: String,
    oracles: Vec<String>,
    when: BTreeMap<String, String>,
    what: String,
}

fn load_known(property: &str) -> Vec<Known> {
    // known_findings.json plus every known_findings.d/*.json (same format), all read-only
    let mut files = vec![verif_root().join("known_findings.json")];
    if let Ok(rd) = std::fs::read_dir(verif_root().join("known_findings.d")) {
        let mut extra: Vec<PathBuf> = rd.filter_map(|e| e.ok().map(|e| e.path())).filter(|p| p.extension().map(|x| x == "json").unwrap_or(false)).collect();
        extra.sort();
        files.extend(extra);
    }
    let mut all = vec![];
    for path in files {
        let Ok(text) = std::fs::read_to_string(&path) else {
            continue;
        };
        let v: Value = match serde_json::from_str(&text) {
            Ok(v) => v,
            Err(e) => machinery_error(&format!("{} unparsable: {}", path.display(), e)),
        };
        all.extend(v["findings"].as_array().cloned().unwrap_or_default());
    }
    let mut out = vec![];
    for f in all {
        if f["property"].as_str() != Some(property) {
            continue;
        }
        let oracles = match &f["oracle"] {
            Value::String(s) => vec![s.clone()],
            Value::Array(a) => a.iter().filter_map(|x| x.as_str().map(String::from)).collect(),
            _ => vec![],
        };
        let mut when = BTreeMap::new();
        if let Some(m) = f["when"].as_object() {
            for (k, v) in m {
                when.insert(k.clone(), v.as_str().unwrap_or("").to_string());
            }
        }
        out.push(Known {
            id: f["id"].as_str().unwrap_or("?").to_string(),
            property: property.to_string(),
            status: f["status"].as_str().unwrap_or("known").to_string(),
            oracles,
            when,
            what: f["what"].as_str().unwrap_or("").to_string(),
        });
    }
    out
}

fn matches(k: &Known, v: &Violation) -> bool {
    if k.status != "known" {
        return false; // `fixed` entries suppress nothing
    }
    if !k.oracles.is_empty() && !k.oracles.iter().any(|o| o == &v.oracle) {
        return false;
    }
    for (key, want) in &k.when {
        let Some(have) = v.tags.get(key) else {
            return false;
        };
        if !have.split(',').any(|x| x == want) {
            return false;
        }
    }
    true
}

pub struct Run {
    pub property: String,
    pub tier: Tier,
    pub seed: u64,
    pub level: &'static str,
    start: Instant,
    known: Vec<Known>,
    known_hits: BTreeMap<String, (usize, String)>,
    unknown: Vec<Violation>,
    unknown_keys: BTreeSet<String>,
    unknown_total: usize,
    /// free-form counters, copied into coverage
    pub counters: BTreeMap<String, u64>,
    pub samples: Vec<Value>,
    pub notes: Vec<String>,
    pub exhaustive: bool,
}

impl Run {
    pub fn new(args: &Args, level: &'static str) -> Run {
        Run {
            property: args.property.clone(),
            tier: args.tier,
            seed: args.seed,
            level,
            start: Instant::now(),
            known: load_known(&args.property),
            known_hits: BTreeMap::new(),
            unknown: vec![],
            unknown_keys: BTreeSet::new(),
            unknown_total: 0,
            counters: BTreeMap::new(),
            samples: vec![],
            notes: vec![],
            exhaustive: true,
        }
    }
    pub fn count(&mut self, key: &str, n: u64) {
        *self.counters.entry(key.to_string()).or_insert(0) += n;
    }
    pub fn get(&self, key: &str) -> u64 {
        self.counters.get(key).copied().unwrap_or(0)
    }
    /// keep a handful of evenly spread samples
    pub fn sample(&mut self, idx: u64, v: impl FnOnce() -> Value) {
        if self.samples.len() < 3 || (idx.is_power_of_two() && self.samples.len() < 12) {
            self.samples.push(v());
        }
    }
    pub fn elapsed(&self) -> f64 {
        self.start.elapsed().as_secs_f64()
    }
    pub fn violation(&mut self, v: Violation) {
        for k in &self.known {
            if matches(k, &v) {
                let e = self
                    .known_hits
                    .entry(k.id.clone())
                    .or_insert((0, v.summary.clone()));
                e.0 += 1;
                return;
            }
        }
        self.unknown_total += 1;
        if std::env::var("VERIF_TRIAGE").is_ok() {
            eprintln!("TRIAGE {} | {}", v.oracle, v.summary.chars().take(400).collect::<String>());
            use std::io::Write;
            let dir = verif_root().join(".work");
            let _ = std::fs::create_dir_all(&dir);
            if let Ok(mut f) = std::fs::OpenOptions::new().create(true).append(true).open(dir.join(format!("triage-{}.jsonl", self.property))) {
                let _ = writeln!(f, "{}", json!({"oracle": v.oracle, "tags": v.tags, "summary": v.summary, "case": v.case}));
            }
        }
        // dedup on oracle + tags so one root cause gives a few replay files, not thousands
        let key = format!("{}|{:?}", v.oracle, v.tags);
        if self.unknown_keys.insert(key) && self.unknown.len() < 25 {
            self.unknown.push(v);
        }
    }
    pub fn violations_found(&self) -> usize {
        self.unknown_total
    }

    /// Writes evidence, prints verdict lines, exits.
    pub fn finish(mut self, mut coverage: Map<String, Value>, assumptions: Vec<String>) -> ! {
        let root = verif_root();
        let wall = self.elapsed();
        for (k, v) in &self.counters {
            coverage.entry(k.clone()).or_insert(json!(v));
        }
        if !coverage.contains_key("samples") {
            if self.samples.is_empty() {
                self.samples.push(json!("no case sampled"));
            }
            coverage.insert("samples".into(), Value::Array(self.samples.clone()));
        }
        coverage
            .entry("exhaustive".to_string())
            .or_insert(json!(self.exhaustive));
        if !self.notes.is_empty() {
            coverage.insert("notes".into(), json!(self.notes));
        }
        let mut kf = vec![];
        for k in &self.known {
            if let Some((n, example)) = self.known_hits.get(&k.id) {
                println!(
                    "KNOWN-FINDING: property={} {} [{}] ({} failing cases this run, e.g. {})",
                    k.property, k.what, k.id, n, example
                );
                kf.push(json!({"id": k.id, "cases": n}));
            }
        }
        coverage.insert("known_findings_hit".into(), json!(kf));
        let ev = json!({
            "property_id": self.property,
            "tier": self.tier.name(),
            "seed": self.seed,
            "level": self.level,
            "coverage": Value::Object(coverage),
            "assumptions": assumptions,
            "wall_s": (wall * 1000.0).round() / 1000.0,
            "violations": self.unknown_total,
        });
        let evdir = root.join("evidence");
        let _ = std::fs::create_dir_all(&evdir);
        let evpath = evdir.join(format!("{}.json", self.property));
        if let Err(e) = std::fs::write(&evpath, serde_json::to_string_pretty(&ev).unwrap() + "\n") {
            machinery_error(&format!("cannot write evidence {}: {}", evpath.display(), e));
        }
        if self.unknown.is_empty() {
            println!(
                "OK property={} tier={} wall_s={:.1} evidence={}",
                self.property,
                self.tier.name(),
                wall,
                evpath.display()
            );
            std::process::exit(0);
        }
        let rdir = root.join("replays").join(&self.property);
        let _ = std::fs::create_dir_all(&rdir);
        for (i, v) in self.unknown.iter().enumerate() {
            let p = rdir.join(format!("{}-{:02}.json", self.tier.name(), i));
            let doc = json!({
                "property": self.property,
                "oracle": v.oracle,
                "tags": v.tags,
                "summary": v.summary,
                "case": v.case,
            });
            let _ = std::fs::write(&p, serde_json::to_string_pretty(&doc).unwrap() + "\n");
            println!("VIOLATION property={} replay={}", self.property, p.display());
            println!("  oracle={} {}", v.oracle, v.summary);
        }
        println!(
            "FAILED property={} distinct={} total_failing_cases={}",
            self.property,
            self.unknown.len(),
            self.unknown_total
        );
        std::process::exit(1)
    }
}

pub fn tags(pairs: &[(&str, String)]) -> BTreeMap<String, String> {
    pairs.iter().map(|(k, v)| (k.to_string(), v.clone())).collect()
}

/// Install a panic hook that records message + location into a thread local instead of printing.
pub fn quiet_panics() {
    std::panic::set_hook(Box::new(|info| {
        let msg = if let Some(s) = info.payload().downcast_ref::<&str>() {
            s.to_string()
        } else if let Some(s) = info.payload().downcast_ref::<String>() {
            s.clone()
        } else {
            "<non-string panic payload>".to_string()
        };
        let loc = info
            .location()
            .map(|l| format!("{}:{}", l.file(), l.line()))
            .unwrap_or_default();
        if GUARD_DEPTH.with(|d| d.get()) == 0 {
            // a panic outside any guarded call is a bug of the machinery itself: be loud
            eprintln!("MACHINERY-PANIC: {} @ {}", msg, loc);
        }
        if std::env::var("VERIF_PANIC_TRACE").is_ok() {
            eprintln!("panic: {} @ {}\n{}", msg, loc, std::backtrace::Backtrace::force_capture());
        }
        LAST_PANIC.with(|p| *p.borrow_mut() = Some(format!("{} @ {}", msg, loc)));
    }));
}
thread_local! {
    pub static GUARD_DEPTH: std::cell::Cell<u32> = const { std::cell::Cell::new(0) };
    pub static LAST_PANIC: std::cell::RefCell<Option<String>> = const { std::cell::RefCell::new(None) };
}
pub fn take_last_panic() -> String {
    LAST_PANIC
        .with(|p| p.borrow_mut().take())
        .unwrap_or_else(|| "<panic>".to_string())
}

/// Run `f`, converting a panic into Err(message @ location).
pub fn guarded<T>(f: impl FnOnce() -> T) -> Result<T, String> {
    GUARD_DEPTH.with(|d| d.set(d.get() + 1));
    let r = std::panic::catch_unwind(std::panic::AssertUnwindSafe(f));
    GUARD_DEPTH.with(|d| d.set(d.get() - 1));
    match r {
        Ok(v) => Ok(v),
        Err(_) => Err(take_last_panic()),
    }
}

pub fn hex(b: &[u8]) -> String {
    let mut s = String::with_capacity(b.len() * 2);
    for (i, x) in b.iter().enumerate() {
        if i >= 256 {
            s.push_str(&format!("..(+{} bytes)", b.len() - i));
            break;
        }
        s.push_str(&format!("{:02x}", x));
    }
    s
}
pub fn unhex(s: &str) -> Vec<u8> {
    let s = s.split("..").next().unwrap_or("");
    (0..s.len() / 2)
        .map(|i| u8::from_str_radix(&s[2 * i..2 * i + 2], 16).unwrap_or(0))
        .collect()
}
