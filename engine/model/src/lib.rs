//! Reference model of the savefile format. No dependency on savefile.
pub mod emit;
pub mod families;
pub mod grammar;
pub mod hist;
pub mod schema;
pub mod ty;
pub mod values;
pub mod wire;

pub use ty::*;

pub const SHARDS: usize = 16;

/// which shard a family entry lives in
pub fn shard_of(index: usize) -> usize {
    index % SHARDS
}
