//! Wire grammars of type descriptions, used by the C05 oracle (three-valued: must-reject /
//! must-accept / no claim).
use crate::ty::*;

/// Schema-shaped grammar: keeps the node kinds savefile's schema distinguishes.
#[derive(Clone, Debug, PartialEq, Eq, Hash)]
pub enum G {
    Prim(PK),
    Str,
    Zero,
    Opt(Box<G>),
    Seq(Box<G>),
    Array(usize, Box<G>),
    Struct(Vec<G>),
    /// (width, variants: (index, name, fields))
    Enum(usize, Vec<(usize, String, Vec<G>)>),
    /// a library type with its own schema node kind (Duration, SystemTime, DateTime, Canary1,
    /// IpAddr, ...): schema-equal only to itself; byte layout = the inner grammar
    Named(String, Box<G>),
}

#[derive(Clone, Copy, Debug, PartialEq, Eq, Hash)]
pub enum PK {
    U8,
    I8,
    U16,
    I16,
    U32,
    I32,
    U64,
    I64,
    U128,
    I128,
    F32,
    F64,
    Bool,
    Char,
}

fn pk(p: Prim) -> G {
    G::Prim(match p {
        Prim::U8 => PK::U8,
        Prim::I8 => PK::I8,
        Prim::U16 => PK::U16,
        Prim::I16 => PK::I16,
        Prim::U32 => PK::U32,
        Prim::I32 => PK::I32,
        Prim::U64 | Prim::Usize => PK::U64,
        Prim::I64 | Prim::Isize => PK::I64,
        Prim::U128 => PK::U128,
        Prim::I128 => PK::I128,
        Prim::F32 => PK::F32,
        Prim::F64 => PK::F64,
        Prim::Bool => PK::Bool,
        Prim::Char => PK::Char,
        Prim::String => return G::Str,
        Prim::Unit => return G::Zero,
    })
}

fn fields_g(fields: &[Field], ver: u32) -> Vec<G> {
    fields.iter().filter(|f| f.present_at(ver) || f.versions_as.iter().any(|va| ver >= va.from && ver <= va.to)).map(|f| {
        if let Some(va) = f.versions_as.iter().find(|va| ver >= va.from && ver <= va.to) {
            grammar(&va.ty, ver)
        } else {
            grammar(&f.ty, ver)
        }
    }).collect()
}

pub fn grammar(ty: &Ty, ver: u32) -> G {
    match ty {
        Ty::Prim(p) => pk(*p),
        Ty::Opt(t) => G::Opt(Box::new(grammar(t, ver))),
        Ty::Res(a, b) => G::Enum(1, vec![(1, "Ok".into(), vec![grammar(a, ver)]), (0, "Err".into(), vec![grammar(b, ver)])]),
        Ty::Wrap(_, t) => grammar(t, ver),
        Ty::Lib(l) => match l.key.as_str() {
            // documented as plain strings / plain primitives
            "PathBuf" | "ArcStr" | "ArrayString" | "CowStr" => grammar(&l.wire, ver),
            k if k.starts_with("Atomic") => grammar(&l.wire, ver),
            k => G::Named(k.to_string(), Box::new(grammar(&l.wire, ver))),
        },
        // IndexSet documents its elements as one-field structs ("Key"); same bytes, but a
        // different schema shape, so pairs with plain sequences are in the no-claim zone
        Ty::Seq(SeqKind::IndexSet, t) => G::Seq(Box::new(G::Struct(vec![grammar(t, ver)]))),
        Ty::Seq(_, t) => G::Seq(Box::new(grammar(t, ver))),
        Ty::Map(_, k, v) => G::Seq(Box::new(G::Struct(vec![grammar(k, ver), grammar(v, ver)]))),
        Ty::Array(t, n) => G::Array(*n, Box::new(grammar(t, ver))),
        Ty::Tuple(ts) => G::Struct(ts.iter().map(|t| grammar(t, ver)).collect()),
        Ty::Def(d) => match &d.kind {
            DefKind::Struct(s) => G::Struct(fields_g(&s.fields, ver)),
            DefKind::Enum(e) => G::Enum(
                e.wire_width(),
                e.variants
                    .iter()
                    .enumerate()
                    .filter(|(_, v)| ver >= v.from)
                    .map(|(i, v)| (i, v.name.clone(), fields_g(&v.fields, ver)))
                    .collect(),
            ),
        },
    }
}

/// Byte-level view: struct grouping dissolved, arrays unrolled, strings as byte sequences,
/// options as two-variant tags. Two types whose flat grammars are equal parse every byte string
/// identically (up to the interpretation of same-width primitives, which `kinds` keeps).
#[derive(Clone, Debug, PartialEq, Eq, Hash)]
pub enum F {
    Prim(PK),
    Seq(Vec<F>),
    /// (tag width, alternatives: (tag value, name if significant, body))
    Alt(usize, Vec<(usize, Option<String>, Vec<F>)>),
}

pub fn flatten(g: &G, out: &mut Vec<F>) {
    match g {
        G::Prim(p) => out.push(F::Prim(*p)),
        G::Str => out.push(F::Seq(vec![F::Prim(PK::U8)])),
        G::Zero => {}
        G::Opt(i) => {
            let mut b = vec![];
            flatten(i, &mut b);
            out.push(F::Alt(1, vec![(0, None, vec![]), (1, None, b)]));
        }
        G::Seq(i) => {
            let mut b = vec![];
            flatten(i, &mut b);
            out.push(F::Seq(b));
        }
        G::Array(n, i) => {
            for _ in 0..*n {
                flatten(i, out);
            }
        }
        G::Struct(fs) => {
            for f in fs {
                flatten(f, out);
            }
        }
        G::Named(_, i) => flatten(i, out),
        G::Enum(w, vs) => {
            let mut alts: Vec<(usize, Option<String>, Vec<F>)> = vs
                .iter()
                .map(|(i, name, fs)| {
                    let mut b = vec![];
                    for f in fs {
                        flatten(f, &mut b);
                    }
                    (*i, Some(name.clone()), b)
                })
                .collect();
            alts.sort_by_key(|a| a.0);
            out.push(F::Alt(*w, alts));
        }
    }
}

fn erase_names(f: &F) -> F {
    match f {
        F::Prim(p) => F::Prim(*p),
        F::Seq(b) => F::Seq(b.iter().map(erase_names).collect()),
        F::Alt(w, alts) => F::Alt(*w, alts.iter().map(|(i, _, b)| (*i, None, b.iter().map(erase_names).collect())).collect()),
    }
}

#[derive(Clone, Copy, Debug, PartialEq, Eq)]
pub enum Claim {
    /// wire layouts (or enum variant names) differ: load with schema must fail with a schema error
    MustReject,
    /// schema-shaped grammars identical: load must succeed
    MustAccept,
    NoClaim,
}

pub fn claim(saved: &Ty, loaded: &Ty, ver: u32) -> Claim {
    if saved.has_opaque() || loaded.has_opaque() {
        // no model of the bytes: only "the very same type loads its own data" is claimed
        return if saved.rust() == loaded.rust() { Claim::MustAccept } else { Claim::NoClaim };
    }
    let (gs, gl) = (grammar(saved, ver), grammar(loaded, ver));
    if gs == gl {
        return Claim::MustAccept;
    }
    let (mut fs, mut fl) = (vec![], vec![]);
    flatten(&gs, &mut fs);
    flatten(&gl, &mut fl);
    if fs != fl {
        // differs in layout, or only in variant names (names are significant for enums only when
        // both sides are enums of the same shape; an Option and an enum carry no comparable names)
        let same_layout = fs.iter().map(erase_names).collect::<Vec<_>>() == fl.iter().map(erase_names).collect::<Vec<_>>();
        if !same_layout {
            return Claim::MustReject;
        }
        // same bytes, names differ somewhere: must reject only if a name-carrying enum is compared
        // with a name-carrying enum
        fn names_conflict(a: &[F], b: &[F]) -> bool {
            a.iter().zip(b).any(|(x, y)| match (x, y) {
                (F::Alt(_, aa), F::Alt(_, bb)) => aa.iter().zip(bb).any(|(p, q)| match (&p.1, &q.1) {
                    (Some(n1), Some(n2)) if n1 != n2 => true,
                    _ => names_conflict(&p.2, &q.2),
                }),
                (F::Seq(p), F::Seq(q)) => names_conflict(p, q),
                _ => false,
            })
        }
        if names_conflict(&fs, &fl) {
            return Claim::MustReject;
        }
    }
    Claim::NoClaim
}
