//! F-hist: the history tree of schema-evolution edits (DESIGN §4). Every node is one generated
//! definition (node at depth n = the definition at version n); a history is a root-to-node path.
use crate::families::*;
use crate::ty::*;
use crate::wire::{convert, default_of, field_default};
use std::sync::Arc;

#[derive(Clone, Debug, PartialEq, Eq, Hash)]
pub enum Edit {
    /// insert a field at `pos`, present from the new version on
    Add { pos: usize, ty: Ty, default: DefaultKind },
    /// turn the live field at `pos` into Removed / AbiRemoved, closed at the previous version
    Remove { pos: usize, flavour: RemovedKind },
    /// change the type of the live field at `pos` (u8 -> u16 via From, u32 -> String via fn)
    Convert { pos: usize },
    /// append an enum variant existing from the new version on
    AppendVariant { tuple: bool },
    /// add a field (u8, Default) to variant `variant` from the new version on
    AddFieldToVariant { variant: usize },
}

impl Edit {
    pub fn label(&self) -> String {
        match self {
            Edit::Add { pos, ty, default } => format!(
                "Add(pos={},{},{})",
                pos,
                ty.describe(),
                match default {
                    DefaultKind::Trait => "Default",
                    DefaultKind::Lit(..) => "default_val",
                    DefaultKind::Fn(..) => "default_fn",
                }
            ),
            Edit::Remove { pos, flavour } => format!("Remove(pos={},{:?})", pos, flavour),
            Edit::Convert { pos } => format!("Convert(pos={})", pos),
            Edit::AppendVariant { tuple } => format!("AppendVariant({})", if *tuple { "tuple" } else { "unit" }),
            Edit::AddFieldToVariant { variant } => format!("AddFieldToVariant({})", variant),
        }
    }
    /// usable for writing older versions (C18 / C10): Add, AbiRemoved removal, variants
    pub fn abi_ok(&self) -> bool {
        match self {
            Edit::Add { .. } | Edit::AppendVariant { .. } | Edit::AddFieldToVariant { .. } => true,
            Edit::Remove { flavour, .. } => *flavour != RemovedKind::Removed,
            Edit::Convert { .. } => false,
        }
    }
}

#[derive(Clone, Debug)]
pub struct HistNode {
    pub ty: Ty,
    pub parent: Option<usize>,
    /// = the version number of this definition
    pub depth: u32,
    pub edit: Option<Edit>,
    pub base: usize,
}

fn def_of(ty: &Ty) -> &Arc<Def> {
    match ty {
        Ty::Def(d) => d,
        _ => panic!("history node must be a definition"),
    }
}

fn rebuild(old: &Def, kind: DefKind) -> Ty {
    {
        let _ = old;
        Ty::Def(mk_def(kind, false, 0))
    }
}

/// apply an edit that creates version `n` from the definition at version n-1
pub fn apply(ty: &Ty, e: &Edit, n: u32) -> Option<Ty> {
    let d = def_of(ty);
    match (&d.kind, e) {
        (DefKind::Struct(s), Edit::Add { pos, ty: fty, default }) => {
            if *pos > s.fields.len() {
                return None;
            }
            let mut s = s.clone();
            let mut f = Field::plain(&format!("n{}p{}", n, pos), fty.clone());
            f.from = n;
            f.default = default.clone();
            s.fields.insert(*pos, f);
            Some(rebuild(d, DefKind::Struct(s)))
        }
        (DefKind::Struct(s), Edit::Remove { pos, flavour }) => {
            let f = s.fields.get(*pos)?;
            if f.removed != RemovedKind::No || f.ignore || !f.versions_as.is_empty() {
                return None;
            }
            // the type must have a Default for AbiRemoved
            let mut s = s.clone();
            let f = &mut s.fields[*pos];
            f.to = n - 1;
            f.removed = *flavour;
            if *flavour == RemovedKind::AbiCtor {
                f.default = DefaultKind::Fn(match &f.ty {
                    Ty::Prim(Prim::String) => Val::Str("ctor".into()),
                    Ty::Prim(p) if p.is_int() => Val::U(7),
                    other => default_of(other),
                });
            } else {
                f.default = DefaultKind::Trait;
            }
            Some(rebuild(d, DefKind::Struct(s)))
        }
        (DefKind::Struct(s), Edit::Convert { pos }) => {
            let f = s.fields.get(*pos)?;
            if f.removed != RemovedKind::No || f.ignore || !f.versions_as.is_empty() {
                return None;
            }
            let (new_ty, conv) = match &f.ty {
                Ty::Prim(Prim::U8) => (p(Prim::U16), Conv::From),
                Ty::Prim(Prim::U32) => (p(Prim::String), Conv::ToStringFn),
                _ => return None,
            };
            // exception: widening an added u8 whose default is Default::default() commutes (0 -> 0)
            let commuting_added = f.default == DefaultKind::Trait && matches!(f.ty, Ty::Prim(Prim::U8));
            if f.from != 0 && !commuting_added {
                // a default declared for versions before the field existed would not commute
                // with the conversion; keep histories whose step-wise meaning is unambiguous
                return None;
            }
            let mut s = s.clone();
            let f = &mut s.fields[*pos];
            f.versions_as = vec![VersionsAs {
                from: f.from,
                to: n - 1,
                ty: f.ty.clone(),
                conv,
            }];
            f.ty = new_ty;
            f.from = n;
            f.default = DefaultKind::Trait;
            Some(rebuild(d, DefKind::Struct(s)))
        }
        (DefKind::Enum(en), Edit::AppendVariant { tuple }) => {
            let mut en = en.clone();
            let name = format!("V{}", en.variants.len());
            let mut v = if *tuple { tuple_variant(&name, &[p(Prim::U16)], None) } else { unit_variant(&name, None) };
            v.from = n;
            en.variants.push(v);
            Some(rebuild(d, DefKind::Enum(en)))
        }
        (DefKind::Enum(en), Edit::AddFieldToVariant { variant }) => {
            let mut en = en.clone();
            let v = en.variants.get_mut(*variant)?;
            if v.style == Style::Unit {
                return None;
            }
            let mut f = Field::plain(&format!("n{}", n), p(Prim::U8));
            if v.style == Style::Tuple {
                f.name = format!("f{}", v.fields.len());
            }
            f.from = n;
            v.fields.push(f);
            Some(rebuild(d, DefKind::Enum(en)))
        }
        _ => None,
    }
}

/// what the definition after edit `e` holds in memory for a value `v` of the definition before
/// (independent of the wire decoder's version logic)
pub fn upgrade_step(before: &Ty, after: &Ty, e: &Edit, v: &Val) -> Val {
    let after_def = def_of(after);
    match (e, v) {
        (Edit::Add { pos, .. }, Val::Struct(items)) => {
            let DefKind::Struct(s) = &after_def.kind else { panic!() };
            let mut items = items.clone();
            items.insert(*pos, field_default(&s.fields[*pos]));
            Val::Struct(items)
        }
        (Edit::Remove { pos, .. }, Val::Struct(items)) => {
            let mut items = items.clone();
            items[*pos] = Val::Unit;
            Val::Struct(items)
        }
        (Edit::Convert { pos }, Val::Struct(items)) => {
            let DefKind::Struct(s) = &after_def.kind else { panic!() };
            let mut items = items.clone();
            items[*pos] = convert(s.fields[*pos].versions_as[0].conv, &items[*pos], &s.fields[*pos].ty);
            Val::Struct(items)
        }
        (Edit::AppendVariant { .. }, v) => v.clone(),
        (Edit::AddFieldToVariant { variant }, Val::Variant(i, items)) => {
            if *i as usize == *variant {
                let DefKind::Enum(en) = &after_def.kind else { panic!() };
                let mut items = items.clone();
                items.push(field_default(en.variants[*variant].fields.last().unwrap()));
                Val::Variant(*i, items)
            } else {
                v.clone()
            }
        }
        _ => panic!("upgrade_step shape: {} {:?} {:?}", before.describe(), e, v),
    }
}

/// the value of the definition *before* edit `e` that an older reader sees when the newer
/// definition writes `v` at the older version; None if `v` cannot be written there
pub fn downgrade_step(before: &Ty, after: &Ty, e: &Edit, v: &Val) -> Option<Val> {
    let after_def = def_of(after);
    let _ = before;
    match (e, v) {
        (Edit::Add { pos, .. }, Val::Struct(items)) => {
            let mut items = items.clone();
            items.remove(*pos);
            Some(Val::Struct(items))
        }
        (Edit::Remove { pos, flavour }, Val::Struct(items)) => {
            if *flavour == RemovedKind::Removed {
                return None;
            }
            let DefKind::Struct(s) = &after_def.kind else { panic!() };
            let mut items = items.clone();
            items[*pos] = field_default(&s.fields[*pos]);
            Some(Val::Struct(items))
        }
        (Edit::Convert { .. }, _) => None,
        (Edit::AppendVariant { .. }, Val::Variant(i, _)) => {
            let DefKind::Enum(en) = &after_def.kind else { panic!() };
            if *i as usize == en.variants.len() - 1 {
                None
            } else {
                Some(v.clone())
            }
        }
        (Edit::AddFieldToVariant { variant }, Val::Variant(i, items)) => {
            if *i as usize == *variant {
                let mut items = items.clone();
                items.pop();
                Some(Val::Variant(*i, items))
            } else {
                Some(v.clone())
            }
        }
        _ => panic!("downgrade_step shape"),
    }
}

fn bases() -> Vec<Ty> {
    vec![
        // packed repr(C) base
        strukt(true, Style::Named, vec![Field::plain("a", p(Prim::U32)), Field::plain("b", p(Prim::U32))]),
        // mixed base
        strukt(false, Style::Named, vec![Field::plain("a", p(Prim::U8)), Field::plain("s", p(Prim::String)), Field::plain("c", p(Prim::U16))]),
        // nested packed + vector
        strukt(true, Style::Named, vec![Field::plain("p", leaf_p2()), Field::plain("v", Ty::Seq(SeqKind::Vec, Box::new(leaf_p2()))), Field::plain("z", p(Prim::U8))]),
        // enums
        enm(None, false, vec![unit_variant("A", None), tuple_variant("B", &[p(Prim::U8)], None)]),
        enm(Some(IntRepr::U8), true, vec![tuple_variant("A", &[p(Prim::U8)], None), named_variant("B", &[p(Prim::U8)], None)]),
        // a field whose type is an enum with payload-carrying variants (its encoded size depends
        // on the variant stored): removing it means skipping a value of varying length
        strukt(
            false,
            Style::Named,
            vec![
                Field::plain("a", p(Prim::U8)),
                Field::plain("e", enm_default(None, false, vec![unit_variant("A", None), tuple_variant("B", &[p(Prim::U32)], None), tuple_variant("C", &[p(Prim::String)], None)])),
                Field::plain("z", p(Prim::U16)),
            ],
        ),
        // the boundary of the implicit one-byte variant index: 255 variants, then a 256th is appended
        enm(None, false, (0..255).map(|i| if i == 254 { tuple_variant("V254", &[p(Prim::U8)], None) } else { unit_variant(&format!("V{}", i), None) }).collect()),
    ]
}

fn full_alphabet(ty: &Ty) -> Vec<Edit> {
    let d = def_of(ty);
    let mut out = vec![];
    match &d.kind {
        DefKind::Struct(s) => {
            let n = s.fields.len();
            let mut positions = vec![0, n / 2, n];
            positions.dedup();
            for pos in positions {
                out.push(Edit::Add { pos, ty: p(Prim::U32), default: DefaultKind::Trait });
                out.push(Edit::Add { pos, ty: p(Prim::U32), default: DefaultKind::Lit("42".into(), Val::U(42)) });
                out.push(Edit::Add { pos, ty: p(Prim::U32), default: DefaultKind::Fn(Val::U(77)) });
                out.push(Edit::Add { pos, ty: p(Prim::U8), default: DefaultKind::Trait });
                out.push(Edit::Add { pos, ty: p(Prim::String), default: DefaultKind::Lit("dv".into(), Val::Str("dv".into())) });
                out.push(Edit::Add { pos, ty: leaf_p2(), default: DefaultKind::Trait });
            }
            for pos in 0..n {
                for flavour in [RemovedKind::Removed, RemovedKind::Abi, RemovedKind::AbiCtor] {
                    out.push(Edit::Remove { pos, flavour });
                }
                out.push(Edit::Convert { pos });
            }
        }
        DefKind::Enum(en) => {
            out.push(Edit::AppendVariant { tuple: false });
            out.push(Edit::AppendVariant { tuple: true });
            let n = en.variants.len();
            for v in 0..n {
                // big enums: the first two and the last variant
                if n <= 8 || v < 2 || v + 1 == n {
                    out.push(Edit::AddFieldToVariant { variant: v });
                }
            }
        }
    }
    out
}

fn reduced_alphabet(ty: &Ty) -> Vec<Edit> {
    let d = def_of(ty);
    match &d.kind {
        DefKind::Struct(s) => {
            let n = s.fields.len();
            let mut out = vec![
                Edit::Add { pos: 0, ty: p(Prim::U32), default: DefaultKind::Trait },
                Edit::Add { pos: n, ty: p(Prim::String), default: DefaultKind::Trait },
                Edit::Add { pos: n / 2, ty: p(Prim::U8), default: DefaultKind::Lit("9".into(), Val::U(9)) },
                Edit::Add { pos: n, ty: p(Prim::U8), default: DefaultKind::Trait },
            ];
            // remove the first and the last live field; convert the first convertible
            let live: Vec<usize> = (0..n).filter(|i| s.fields[*i].removed == RemovedKind::No && s.fields[*i].versions_as.is_empty()).collect();
            if let Some(&f) = live.first() {
                out.push(Edit::Remove { pos: f, flavour: RemovedKind::Abi });
                out.push(Edit::Remove { pos: f, flavour: RemovedKind::Removed });
            }
            if let Some(&l) = live.last() {
                if live.len() > 1 {
                    out.push(Edit::Remove { pos: l, flavour: RemovedKind::AbiCtor });
                }
            }
            if let Some(&c) = live.iter().find(|i| matches!(s.fields[**i].ty, Ty::Prim(Prim::U8) | Ty::Prim(Prim::U32))) {
                out.push(Edit::Convert { pos: c });
            }
            // a field that was itself added in an earlier step (Add then Convert)
            if let Some(&c) = live.iter().rev().find(|i| s.fields[**i].from > 0 && matches!(s.fields[**i].ty, Ty::Prim(Prim::U8))) {
                out.push(Edit::Convert { pos: c });
            }
            out
        }
        DefKind::Enum(_) => full_alphabet(ty),
    }
}

fn removable(ty: &Ty, e: &Edit) -> bool {
    // AbiRemoved needs Default on the removed type; all field types used here have it
    let _ = (ty, e);
    true
}

/// The history tree. quick: depth 1 complete over the full alphabet, depth 2 = reduced alphabet
/// applied to the depth-1 nodes created by the reduced alphabet. thorough: depth 2 = reduced
/// alphabet applied to every depth-1 node, depth 3 = reduced^3.
pub fn hist_tree(thorough: bool) -> Vec<HistNode> {
    static Q: std::sync::OnceLock<Vec<HistNode>> = std::sync::OnceLock::new();
    static T: std::sync::OnceLock<Vec<HistNode>> = std::sync::OnceLock::new();
    if thorough { T.get_or_init(|| compute_hist_tree(true)).clone() } else { Q.get_or_init(|| compute_hist_tree(false)).clone() }
}
fn compute_hist_tree(thorough: bool) -> Vec<HistNode> {
    let mut nodes: Vec<HistNode> = vec![];
    let mut seen = std::collections::HashSet::new();
    for (bi, b) in bases().into_iter().enumerate() {
        let root = nodes.len();
        nodes.push(HistNode { ty: b.clone(), parent: None, depth: 0, edit: None, base: bi });
        seen.insert(b.rust());
        let mut frontier: Vec<(usize, bool /*created by reduced alphabet*/)> = vec![(root, true)];
        let max_depth = if thorough { 3 } else { 2 };
        for depth in 1..=max_depth {
            let mut next = vec![];
            for (ni, via_reduced) in &frontier {
                let ty = nodes[*ni].ty.clone();
                let reduced = reduced_alphabet(&ty);
                let edits: Vec<Edit> = if depth == 1 {
                    full_alphabet(&ty)
                } else if thorough && depth == 2 {
                    reduced.clone()
                } else if *via_reduced {
                    reduced.clone()
                } else {
                    vec![]
                };
                for e in edits {
                    if !removable(&ty, &e) {
                        continue;
                    }
                    let Some(nt) = apply(&ty, &e, depth) else { continue };
                    if !seen.insert(nt.rust()) {
                        continue;
                    }
                    let is_reduced = reduced.contains(&e);
                    let idx = nodes.len();
                    nodes.push(HistNode { ty: nt, parent: Some(*ni), depth, edit: Some(e), base: bi });
                    next.push((idx, is_reduced && *via_reduced));
                }
            }
            frontier = next;
        }
    }
    nodes
}

/// node indices from the root to `i` (inclusive)
pub fn path_to(nodes: &[HistNode], i: usize) -> Vec<usize> {
    let mut p = vec![i];
    let mut cur = i;
    while let Some(par) = nodes[cur].parent {
        p.push(par);
        cur = par;
    }
    p.reverse();
    p
}
