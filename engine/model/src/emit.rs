//! Rust source emitter: every enumerated definition becomes a `#[derive(Savefile)]` item plus a
//! `Bridge` impl (value <-> `Val`), so the *real* derive macro expands it.
use crate::ty::*;
use std::fmt::Write;
use std::sync::Arc;

pub fn val_rust(v: &Val) -> String {
    match v {
        Val::U(x) => format!("Val::U({}u128)", x),
        Val::I(x) => format!("Val::I({}i128)", x),
        Val::F32(x) => format!("Val::F32({}u32)", x),
        Val::F64(x) => format!("Val::F64({}u64)", x),
        Val::Bool(x) => format!("Val::Bool({})", x),
        Val::Char(x) => format!("Val::Char({}u32)", x),
        Val::Str(s) => format!("Val::Str({:?}.to_string())", s),
        Val::Unit => "Val::Unit".into(),
        Val::None => "Val::None".into(),
        Val::Some(x) => format!("Val::Some(Box::new({}))", val_rust(x)),
        Val::Ok(x) => format!("Val::Ok(Box::new({}))", val_rust(x)),
        Val::Err(x) => format!("Val::Err(Box::new({}))", val_rust(x)),
        Val::Seq(x) => format!("Val::Seq(vec![{}])", x.iter().map(val_rust).collect::<Vec<_>>().join(", ")),
        Val::Tuple(x) => format!("Val::Tuple(vec![{}])", x.iter().map(val_rust).collect::<Vec<_>>().join(", ")),
        Val::Struct(x) => format!("Val::Struct(vec![{}])", x.iter().map(val_rust).collect::<Vec<_>>().join(", ")),
        Val::Variant(i, x) => format!(
            "Val::Variant({}, vec![{}])",
            i,
            x.iter().map(val_rust).collect::<Vec<_>>().join(", ")
        ),
        Val::Map(x) => format!(
            "Val::Map(vec![{}])",
            x.iter().map(|(k, v)| format!("({}, {})", val_rust(k), val_rust(v))).collect::<Vec<_>>().join(", ")
        ),
    }
}

fn field_rust_ty(f: &Field, owner: &str) -> String {
    let inner = if let Some(g) = f.generic { format!("T{}", g) } else { f.ty.rust() };
    match f.removed {
        RemovedKind::No => inner,
        RemovedKind::Removed => format!("Removed<{}>", inner),
        RemovedKind::Abi => format!("AbiRemoved<{}>", inner),
        RemovedKind::AbiCtor => format!("AbiRemoved<{}, Ctor_{}_{}>", inner, owner, f.name),
    }
}

fn field_attrs(f: &Field, owner: &str) -> String {
    let mut s = String::new();
    if f.ignore {
        s.push_str("#[savefile_ignore] ");
    }
    if f.is_versioned() {
        let to = if f.to == u32::MAX { String::new() } else { f.to.to_string() };
        let from = if f.from == 0 { String::new() } else { f.from.to_string() };
        write!(s, "#[savefile_versions=\"{}..{}\"] ", from, to).unwrap();
    }
    for va in &f.versions_as {
        match va.conv {
            Conv::From => write!(s, "#[savefile_versions_as=\"{}..{}:{}\"] ", va.from, va.to, va.ty.rust()).unwrap(),
            Conv::ToStringFn => write!(
                s,
                "#[savefile_versions_as=\"{}..{}:conv_u32_to_string:{}\"] ",
                va.from,
                va.to,
                va.ty.rust()
            )
            .unwrap(),
        }
    }
    if f.removed == RemovedKind::No {
        match &f.default {
            DefaultKind::Trait => {}
            DefaultKind::Lit(l, _) => write!(s, "#[savefile_default_val={:?}] ", l).unwrap(),
            DefaultKind::Fn(_) => write!(s, "#[savefile_default_fn=\"dfn_{}_{}\"] ", owner, f.name).unwrap(),
        }
    }
    s
}

fn helper_items(f: &Field, owner: &str, out: &mut String) {
    if f.removed == RemovedKind::AbiCtor {
        let DefaultKind::Fn(v) = &f.default else { panic!("AbiCtor needs DefaultKind::Fn") };
        writeln!(
            out,
            "#[derive(Debug)]\npub struct Ctor_{o}_{n};\nimpl ValueConstructor<{t}> for Ctor_{o}_{n} {{ fn make_value() -> {t} {{ <{t} as Bridge>::from_val(&{v}) }} }}",
            o = owner,
            n = f.name,
            t = f.ty.rust(),
            v = val_rust(v)
        )
        .unwrap();
    } else if let DefaultKind::Fn(v) = &f.default {
        writeln!(
            out,
            "pub fn dfn_{o}_{n}() -> {t} {{ <{t} as Bridge>::from_val(&{v}) }}",
            o = owner,
            n = f.name,
            t = f.ty.rust(),
            v = val_rust(v)
        )
        .unwrap();
    }
}

fn from_val_field(f: &Field, idx: usize) -> String {
    match f.removed {
        RemovedKind::No => format!("Bridge::from_val(&f[{}])", idx),
        RemovedKind::Removed => "Removed::new()".into(),
        RemovedKind::Abi | RemovedKind::AbiCtor => "AbiRemoved::new()".into(),
    }
}
fn to_val_field(f: &Field, access: &str) -> String {
    match f.removed {
        RemovedKind::No => format!("Bridge::to_val({})", access),
        _ => "Val::Unit".into(),
    }
}
fn raw_field(f: &Field, access: &str) -> String {
    match f.removed {
        RemovedKind::No => format!("Bridge::raw_check({}, out);", access),
        _ => String::new(),
    }
}

pub fn emit_def(d: &Arc<Def>, out: &mut String) {
    let name = &d.name;
    let generics_decl = if d.generics == 0 {
        String::new()
    } else {
        format!("<{}>", (0..d.generics).map(|i| format!("T{}", i)).collect::<Vec<_>>().join(", "))
    };
    let self_ty = Ty::Def(d.clone()).rust();
    let derive_default = if d.derive_default { ", Default" } else { "" };
    match &d.kind {
        DefKind::Struct(s) => {
            for f in &s.fields {
                helper_items(f, name, out);
            }
            writeln!(out, "#[derive(Savefile, Debug{})]", derive_default).unwrap();
            if s.repr_c {
                writeln!(out, "#[repr(C)]").unwrap();
            }
            if let Some(a) = s.align {
                writeln!(out, "#[repr(align({}))]", a).unwrap();
            }
            match s.style {
                Style::Unit => writeln!(out, "pub struct {};", name).unwrap(),
                Style::Named => {
                    writeln!(out, "pub struct {}{} {{", name, generics_decl).unwrap();
                    for f in &s.fields {
                        writeln!(out, "    {}pub {}: {},", field_attrs(f, name), f.name, field_rust_ty(f, name)).unwrap();
                    }
                    writeln!(out, "}}").unwrap();
                }
                Style::Tuple => {
                    let fs: Vec<String> = s
                        .fields
                        .iter()
                        .map(|f| format!("{}pub {}", field_attrs(f, name), field_rust_ty(f, name)))
                        .collect();
                    writeln!(out, "pub struct {}{}({});", name, generics_decl, fs.join(", ")).unwrap();
                }
            }
            // Bridge
            writeln!(out, "impl Bridge for {} {{", self_ty).unwrap();
            let acc = |i: usize, f: &Field| match s.style {
                Style::Tuple => format!("&self.{}", i),
                _ => format!("&self.{}", f.name),
            };
            let tv: Vec<String> = s.fields.iter().enumerate().map(|(i, f)| to_val_field(f, &acc(i, f))).collect();
            writeln!(out, "    fn to_val(&self) -> Val {{ Val::Struct(vec![{}]) }}", tv.join(", ")).unwrap();
            let fv: Vec<String> = s
                .fields
                .iter()
                .enumerate()
                .map(|(i, f)| match s.style {
                    Style::Tuple => from_val_field(f, i),
                    _ => format!("{}: {}", f.name, from_val_field(f, i)),
                })
                .collect();
            let ctor = match s.style {
                Style::Unit => name.to_string(),
                Style::Named => format!("{} {{ {} }}", name, fv.join(", ")),
                Style::Tuple => format!("{}({})", name, fv.join(", ")),
            };
            writeln!(out, "    #[allow(unused_variables)] fn from_val(v: &Val) -> Self {{ let f = v.fields(); {} }}", ctor).unwrap();
            let rc: Vec<String> = s.fields.iter().enumerate().map(|(i, f)| raw_field(f, &acc(i, f))).collect();
            writeln!(out, "    #[allow(unused_variables)] fn raw_check(&self, out: &mut Vec<String>) {{ {} }}", rc.join(" ")).unwrap();
            writeln!(out, "}}").unwrap();
        }
        DefKind::Enum(e) => {
            for v in &e.variants {
                for f in &v.fields {
                    helper_items(f, &format!("{}_{}", name, v.name), out);
                }
            }
            writeln!(out, "#[derive(Savefile, Debug{})]", derive_default).unwrap();
            let mut reprs = vec![];
            if e.repr_c {
                reprs.push("C".to_string());
            }
            if let Some(r) = e.repr_int {
                reprs.push(r.rust().to_string());
            }
            if !reprs.is_empty() {
                writeln!(out, "#[repr({})]", reprs.join(", ")).unwrap();
            }
            writeln!(out, "pub enum {}{} {{", name, generics_decl).unwrap();
            for (i, v) in e.variants.iter().enumerate() {
                let owner = format!("{}_{}", name, v.name);
                let mut line = String::new();
                if d.derive_default && i == 0 {
                    line.push_str("#[default] ");
                }
                if v.from > 0 {
                    write!(line, "#[savefile_versions=\"{}..\"] ", v.from).unwrap();
                }
                line.push_str(&v.name);
                match v.style {
                    Style::Unit => {}
                    Style::Tuple => {
                        let fs: Vec<String> = v
                            .fields
                            .iter()
                            .map(|f| format!("{}{}", field_attrs(f, &owner), field_rust_ty(f, &owner)))
                            .collect();
                        write!(line, "({})", fs.join(", ")).unwrap();
                    }
                    Style::Named => {
                        let fs: Vec<String> = v
                            .fields
                            .iter()
                            .map(|f| format!("{}{}: {}", field_attrs(f, &owner), f.name, field_rust_ty(f, &owner)))
                            .collect();
                        write!(line, " {{ {} }}", fs.join(", ")).unwrap();
                    }
                }
                if let Some(dv) = v.discr {
                    write!(line, " = {}", dv).unwrap();
                }
                writeln!(out, "    {},", line).unwrap();
            }
            writeln!(out, "}}").unwrap();
            writeln!(out, "impl Bridge for {} {{", self_ty).unwrap();
            // to_val
            writeln!(out, "    fn to_val(&self) -> Val {{ match self {{").unwrap();
            for (i, v) in e.variants.iter().enumerate() {
                let binds: Vec<String> = (0..v.fields.len()).map(|k| format!("x{}", k)).collect();
                let pat = match v.style {
                    Style::Unit => format!("{}::{}", name, v.name),
                    Style::Tuple => format!("{}::{}({})", name, v.name, binds.join(", ")),
                    Style::Named => format!(
                        "{}::{} {{ {} }}",
                        name,
                        v.name,
                        v.fields.iter().zip(&binds).map(|(f, b)| format!("{}: {}", f.name, b)).collect::<Vec<_>>().join(", ")
                    ),
                };
                let tv: Vec<String> = v.fields.iter().zip(&binds).map(|(f, b)| to_val_field(f, b)).collect();
                writeln!(out, "        #[allow(unused_variables)] {} => Val::Variant({}, vec![{}]),", pat, i, tv.join(", ")).unwrap();
            }
            writeln!(out, "    }} }}").unwrap();
            // from_val
            writeln!(out, "    #[allow(unused_variables)] fn from_val(v: &Val) -> Self {{ let Val::Variant(i, f) = v else {{ panic!(\"from_val: not a variant\") }}; match *i {{").unwrap();
            for (i, v) in e.variants.iter().enumerate() {
                let fv: Vec<String> = v
                    .fields
                    .iter()
                    .enumerate()
                    .map(|(k, f)| match v.style {
                        Style::Named => format!("{}: {}", f.name, from_val_field(f, k)),
                        _ => from_val_field(f, k),
                    })
                    .collect();
                let ctor = match v.style {
                    Style::Unit => format!("{}::{}", name, v.name),
                    Style::Tuple => format!("{}::{}({})", name, v.name, fv.join(", ")),
                    Style::Named => format!("{}::{} {{ {} }}", name, v.name, fv.join(", ")),
                };
                writeln!(out, "        {} => {},", i, ctor).unwrap();
            }
            writeln!(out, "        _ => panic!(\"from_val: bad variant\") }} }}").unwrap();
            // raw_check
            writeln!(out, "    #[allow(unused_variables)] fn raw_check(&self, out: &mut Vec<String>) {{").unwrap();
            if let Some(r) = e.repr_int {
                let discrs: Vec<String> = (0..e.variants.len()).map(|i| format!("{}", e.mem_discr(i))).collect();
                writeln!(
                    out,
                    "        let tag = unsafe {{ std::ptr::read_unaligned(self as *const Self as *const {}) }} as i64; if ![{}i64].contains(&tag) {{ out.push(format!(\"enum {} holds invalid tag {{}}\", tag)); return; }}",
                    r.rust(),
                    discrs.join("i64, "),
                    name
                )
                .unwrap();
            }
            writeln!(out, "        match self {{").unwrap();
            for v in e.variants.iter() {
                let binds: Vec<String> = (0..v.fields.len()).map(|k| format!("x{}", k)).collect();
                let pat = match v.style {
                    Style::Unit => format!("{}::{}", name, v.name),
                    Style::Tuple => format!("{}::{}({})", name, v.name, binds.join(", ")),
                    Style::Named => format!(
                        "{}::{} {{ {} }}",
                        name,
                        v.name,
                        v.fields.iter().zip(&binds).map(|(f, b)| format!("{}: {}", f.name, b)).collect::<Vec<_>>().join(", ")
                    ),
                };
                let rc: Vec<String> = v.fields.iter().zip(&binds).map(|(f, b)| raw_field(f, b)).collect();
                writeln!(out, "            {} => {{ {} }}", pat, rc.join(" ")).unwrap();
            }
            writeln!(out, "        }}\n    }}").unwrap();
            writeln!(out, "}}").unwrap();
        }
    }
}

pub const PRELUDE_USES: &str = "use savefile::prelude::*;
use savefile::ValueConstructor;
use vglue::bridge::Bridge;
use vglue::convs::*;
use vglue::Val;
";

/// Emit a module with all definitions reachable from `types` (deduplicated) and a registry
/// function listing `(family index, type ops)` for every entry of `types`.
pub fn emit_module(types: &[(usize, Ty)], registry_fn: &str) -> String {
    let mut out = String::new();
    let mut defs = vec![];
    for (_, t) in types {
        t.collect_defs(&mut defs);
    }
    for d in &defs {
        emit_def(d, &mut out);
        out.push('\n');
    }
    writeln!(out, "pub fn {}() -> Vec<(usize, Box<dyn vglue::ops::TypeOps>)> {{\n    let mut r: Vec<(usize, Box<dyn vglue::ops::TypeOps>)> = Vec::new();", registry_fn).unwrap();
    for (idx, t) in types {
        writeln!(out, "    r.push(({}, vglue::ops::ops::<{}>()));", idx, t.rust()).unwrap();
    }
    writeln!(out, "    r\n}}").unwrap();
    out
}
