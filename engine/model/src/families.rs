//! The enumerated families of type definitions (DESIGN.md §4). Everything here is deterministic:
//! the generator (`vgen`) and the engines call the same functions and agree on indices.
use crate::ty::*;
use std::sync::Arc;

fn fnv(s: &str) -> u32 {
    let mut h: u32 = 0x811c9dc5;
    for b in s.bytes() {
        h ^= b as u32;
        h = h.wrapping_mul(0x01000193);
    }
    h
}

/// Build a definition whose name is a stable function of its canonical description.
pub fn mk_def(kind: DefKind, derive_default: bool, generics: usize) -> Arc<Def> {
    let mut d = Def {
        name: String::new(),
        kind,
        derive_default,
        generics,
    };
    let key = format!("{}|{}|{}", describe_def(&d), derive_default, generics);
    d.name = format!("T{:08x}", fnv(&key));
    Arc::new(d)
}
pub fn mk_def_named(name: &str, kind: DefKind, derive_default: bool) -> Arc<Def> {
    Arc::new(Def {
        name: name.to_string(),
        kind,
        derive_default,
        generics: 0,
    })
}

pub fn p(x: Prim) -> Ty {
    Ty::Prim(x)
}
pub fn fields_of(tys: &[Ty]) -> Vec<Field> {
    tys.iter().enumerate().map(|(i, t)| Field::plain(&format!("f{}", i), t.clone())).collect()
}
pub fn strukt(repr_c: bool, style: Style, fields: Vec<Field>) -> Ty {
    let style = if fields.is_empty() && style == Style::Tuple { Style::Unit } else { style };
    Ty::Def(mk_def(DefKind::Struct(StructDef { repr_c, align: None, style, fields }), false, 0))
}
pub fn strukt_default(repr_c: bool, fields: Vec<Field>) -> Ty {
    Ty::Def(mk_def(
        DefKind::Struct(StructDef {
            repr_c,
            align: None,
            style: Style::Named,
            fields,
        }),
        true,
        0,
    ))
}
pub fn unit_variant(name: &str, discr: Option<i64>) -> Variant {
    Variant {
        name: name.into(),
        discr,
        style: Style::Unit,
        fields: vec![],
        from: 0,
    }
}
pub fn tuple_variant(name: &str, tys: &[Ty], discr: Option<i64>) -> Variant {
    Variant {
        name: name.into(),
        discr,
        style: Style::Tuple,
        fields: fields_of(tys),
        from: 0,
    }
}
pub fn named_variant(name: &str, tys: &[Ty], discr: Option<i64>) -> Variant {
    Variant {
        name: name.into(),
        discr,
        style: Style::Named,
        fields: fields_of(tys),
        from: 0,
    }
}
pub fn enm(repr_int: Option<IntRepr>, repr_c: bool, variants: Vec<Variant>) -> Ty {
    Ty::Def(mk_def(
        DefKind::Enum(EnumDef {
            repr_int,
            repr_c,
            variants,
        }),
        false,
        0,
    ))
}
pub fn enm_default(repr_int: Option<IntRepr>, repr_c: bool, variants: Vec<Variant>) -> Ty {
    Ty::Def(mk_def(
        DefKind::Enum(EnumDef {
            repr_int,
            repr_c,
            variants,
        }),
        true,
        0,
    ))
}

// ---- well known leaves -------------------------------------------------------------------

/// packed repr(C) struct of 2 x u16
pub fn leaf_p2() -> Ty {
    strukt_default(true, fields_of(&[p(Prim::U16), p(Prim::U16)]))
}
/// non-packed struct (padding between u8 and u32)
pub fn leaf_n1() -> Ty {
    strukt_default(true, fields_of(&[p(Prim::U8), p(Prim::U32)]))
}
/// fieldless repr(u8) enum, implicit discriminants
pub fn leaf_e_u8() -> Ty {
    enm_default(
        Some(IntRepr::U8),
        false,
        vec![unit_variant("A", None), unit_variant("B", None), unit_variant("C", None)],
    )
}
/// fieldless repr(u8) enum with explicit discriminants 5 and 10
pub fn leaf_e_explicit() -> Ty {
    enm_default(
        Some(IntRepr::U8),
        false,
        vec![unit_variant("A", Some(5)), unit_variant("B", Some(10))],
    )
}
/// plain Rust enum with fields, no repr
pub fn leaf_e_plain() -> Ty {
    enm(
        None,
        false,
        vec![unit_variant("A", None), tuple_variant("B", &[p(Prim::U8)], None), named_variant("C", &[p(Prim::U16), p(Prim::String)], None)],
    )
}

pub fn leaves(thorough: bool) -> Vec<Ty> {
    let mut v = vec![p(Prim::U8), p(Prim::U16), p(Prim::U32), p(Prim::Bool), p(Prim::String), leaf_e_explicit()];
    if thorough {
        v.extend([
            p(Prim::I8),
            p(Prim::U64),
            p(Prim::U128),
            p(Prim::F32),
            p(Prim::Char),
            p(Prim::Usize),
            p(Prim::Unit),
            Ty::Tuple(vec![p(Prim::U8), p(Prim::U8)]),
            Ty::Array(Box::new(p(Prim::U8)), 3),
            Ty::Opt(Box::new(p(Prim::U8))),
            Ty::Seq(SeqKind::Vec, Box::new(p(Prim::U16))),
            leaf_p2(),
            leaf_n1(),
            leaf_e_u8(),
        ]);
    }
    v
}

/// Representatives of the (size, alignment, packed?) classes used to cut the 3-field level.
pub fn class_leaves(thorough: bool) -> Vec<Ty> {
    let mut v = vec![p(Prim::U8), p(Prim::U16), p(Prim::U32), leaf_e_explicit()];
    if thorough {
        v.extend([
            p(Prim::U64),
            p(Prim::Bool),
            p(Prim::String),
            p(Prim::Unit),
            Ty::Tuple(vec![p(Prim::U8), p(Prim::U8)]),
            Ty::Array(Box::new(p(Prim::U8)), 3),
            leaf_p2(),
            leaf_e_u8(),
        ]);
    }
    v
}

fn versioned(mut f: Field, from: u32, to: u32) -> Field {
    f.from = from;
    f.to = to;
    f
}

/// F-types: derived structs / enums over the leaf alphabets plus special shapes.
pub fn f_types(thorough: bool) -> Vec<Ty> {
    let mut out: Vec<Ty> = vec![];
    let l = leaves(thorough);
    let cl = class_leaves(thorough);
    // structs of 0..=3 fields
    for repr_c in [false, true] {
        out.push(strukt(repr_c, Style::Named, vec![]));
        for a in &l {
            out.push(strukt(repr_c, Style::Named, fields_of(&[a.clone()])));
            out.push(strukt(repr_c, Style::Tuple, fields_of(&[a.clone()])));
            for b in &l {
                out.push(strukt(repr_c, Style::Named, fields_of(&[a.clone(), b.clone()])));
            }
        }
        for a in &cl {
            for b in &cl {
                out.push(strukt(repr_c, Style::Tuple, fields_of(&[a.clone(), b.clone()])));
                for c in &cl {
                    out.push(strukt(repr_c, Style::Named, fields_of(&[a.clone(), b.clone(), c.clone()])));
                }
            }
        }
    }
    out.push(strukt(false, Style::Unit, vec![]));

    // the well-known leaves themselves, nested packed types, deferred raw-region neighbours
    out.extend([leaf_p2(), leaf_n1(), leaf_e_u8(), leaf_e_explicit(), leaf_e_plain()]);
    let p2 = leaf_p2();
    out.push(strukt(true, Style::Named, fields_of(&[p2.clone(), p2.clone()])));
    out.push(strukt(true, Style::Named, fields_of(&[p(Prim::U32), p2.clone(), p(Prim::U32)])));
    out.push(strukt(true, Style::Named, fields_of(&[p(Prim::U8), p(Prim::U8), p(Prim::String), p(Prim::U16), p(Prim::U16)])));
    out.push(strukt(false, Style::Named, fields_of(&[p(Prim::U16), p(Prim::U16), p(Prim::U8), p(Prim::U8), p(Prim::U32)])));
    out.push(strukt(true, Style::Named, fields_of(&[p(Prim::U32), leaf_e_explicit(), leaf_e_u8(), p(Prim::U16)])));
    out.push(strukt(true, Style::Named, fields_of(&[leaf_e_explicit()])));
    out.push(strukt(true, Style::Named, fields_of(&[Ty::Array(Box::new(leaf_e_explicit()), 2), p(Prim::U16)])));

    // generic structs G<T>{a:T,b:u16}
    for t in [p(Prim::U8), p(Prim::U16), p(Prim::String), leaf_p2(), leaf_e_explicit()] {
        for repr_c in [false, true] {
            let mut fa = Field::plain("a", t.clone());
            fa.generic = Some(0);
            let fb = Field::plain("b", p(Prim::U16));
            out.push(Ty::Def(mk_def(
                DefKind::Struct(StructDef {
                    repr_c,
                    align: None,
                    style: Style::Named,
                    fields: vec![fa, fb],
                }),
                false,
                1,
            )));
        }
    }

    // enums
    let el = [p(Prim::U8), p(Prim::U16), p(Prim::U32), p(Prim::String)];
    let reprs: Vec<(Option<IntRepr>, bool)> = vec![
        (None, false),
        (Some(IntRepr::U8), false),
        (Some(IntRepr::I8), false),
        (Some(IntRepr::U16), false),
        (Some(IntRepr::U32), false),
        (Some(IntRepr::U8), true),
    ];
    for (ri, rc) in &reprs {
        // fieldless, 1..=3 variants, discriminant styles
        if !rc {
            for n in 1..=3usize {
                let names = ["A", "B", "C"];
                let styles: Vec<Vec<Option<i64>>> = vec![
                    vec![None; n],
                    (0..n).map(|i| Some(i as i64 + 1)).collect(),
                    (0..n).map(|i| Some(5 * (i as i64 + 1))).collect(),
                    (0..n).rev().map(|i| Some(i as i64)).collect(),
                ];
                for (si, st) in styles.iter().enumerate() {
                    if si == 3 && n == 1 {
                        continue;
                    }
                    out.push(enm(*ri, false, (0..n).map(|i| unit_variant(names[i], st[i])).collect()));
                }
                if *ri == Some(IntRepr::I8) {
                    out.push(enm(*ri, false, (0..n).map(|i| unit_variant(names[i], Some(-(i as i64) - 1))).collect()));
                }
            }
        }
        // with fields; int repr + fields needs repr(C, int) or plain repr(int) (both legal)
        for a in &el {
            out.push(enm(*ri, *rc, vec![unit_variant("A", None), tuple_variant("B", &[a.clone()], None)]));
            for b in &el[..if thorough { 4 } else { 2 }] {
                out.push(enm(
                    *ri,
                    *rc,
                    vec![tuple_variant("A", &[a.clone()], None), named_variant("B", &[b.clone(), a.clone()], None), unit_variant("C", None)],
                ));
            }
        }
        // permuted explicit discriminants on an enum with fields (accepted by the derive)
        if ri.is_some() {
            out.push(enm(*ri, *rc, vec![tuple_variant("X", &[p(Prim::U8)], Some(1)), tuple_variant("Y", &[p(Prim::U8)], Some(0))]));
            out.push(enm(*ri, *rc, vec![tuple_variant("X", &[p(Prim::U8)], Some(1)), unit_variant("Y", Some(0)), named_variant("Z", &[p(Prim::U8)], Some(2))]));
        }
    }
    // packed-candidate enums: same sized payloads
    out.push(enm(Some(IntRepr::U8), true, vec![tuple_variant("A", &[p(Prim::U8)], None), tuple_variant("B", &[p(Prim::U8)], None)]));
    out.push(enm(Some(IntRepr::U8), false, vec![tuple_variant("A", &[p(Prim::U8)], None), tuple_variant("B", &[p(Prim::U8)], None)]));
    out.push(enm(Some(IntRepr::U8), true, vec![tuple_variant("A", &[p(Prim::U8), p(Prim::U16)], None), tuple_variant("B", &[p(Prim::U8)], None)]));
    out.push(enm(Some(IntRepr::U16), true, vec![tuple_variant("A", &[p(Prim::U16)], None), tuple_variant("B", &[p(Prim::U16)], None)]));
    out.push(enm(Some(IntRepr::U32), true, vec![tuple_variant("A", &[p(Prim::U32), p(Prim::U32)], None), tuple_variant("B", &[leaf_p2(), p(Prim::U32)], None)]));
    // boundary of the implicit index width: 255 / 256 variants use one byte, 257 use two
    for n in [255usize, 256, 257] {
        out.push(enm(None, false, (0..n).map(|i| unit_variant(&format!("V{}", i), None)).collect()));
    }
    // 300 variants: 2 byte index
    out.push(enm(None, false, (0..300).map(|i| unit_variant(&format!("V{}", i), None)).collect()));
    out.push(enm(Some(IntRepr::U16), false, (0..300).map(|i| unit_variant(&format!("V{}", i), None)).collect()));

    // version-attribute shapes
    for repr_c in [false, true] {
        for t in [p(Prim::U32), p(Prim::String), leaf_p2()] {
            // field added at v1 (Default)
            out.push(strukt(repr_c, Style::Named, vec![Field::plain("a", p(Prim::U32)), versioned(Field::plain("b", t.clone()), 1, u32::MAX)]));
            // field removed after v0
            let mut r = versioned(Field::plain("b", t.clone()), 0, 0);
            r.removed = RemovedKind::Removed;
            out.push(strukt(repr_c, Style::Named, vec![Field::plain("a", p(Prim::U32)), r.clone(), Field::plain("c", p(Prim::U32))]));
            let mut r2 = r.clone();
            r2.removed = RemovedKind::Abi;
            out.push(strukt(repr_c, Style::Named, vec![Field::plain("a", p(Prim::U32)), r2, Field::plain("c", p(Prim::U32))]));
        }
        // added with default_val / default_fn
        let mut dv = versioned(Field::plain("b", p(Prim::U32)), 1, u32::MAX);
        dv.default = DefaultKind::Lit("42".into(), Val::U(42));
        out.push(strukt(repr_c, Style::Named, vec![Field::plain("a", p(Prim::U32)), dv]));
        let mut df = versioned(Field::plain("b", p(Prim::String)), 2, u32::MAX);
        df.default = DefaultKind::Fn(Val::Str("dflt".into()));
        out.push(strukt(repr_c, Style::Named, vec![Field::plain("a", p(Prim::U8)), df]));
        // ignored field, with and without explicit default
        let mut ig = Field::plain("g", p(Prim::U32));
        ig.ignore = true;
        out.push(strukt(repr_c, Style::Named, vec![Field::plain("a", p(Prim::U16)), ig.clone(), Field::plain("c", p(Prim::U16))]));
        ig.default = DefaultKind::Lit("7".into(), Val::U(7));
        out.push(strukt(repr_c, Style::Named, vec![Field::plain("a", p(Prim::U16)), ig, Field::plain("c", p(Prim::U16))]));
        // ignored AND version-bounded (never written, never in the schema, at any version)
        for (from, to) in [(0u32, 0u32), (1, u32::MAX), (1, 1)] {
            let mut igv = versioned(Field::plain("g", p(Prim::U32)), from, to);
            igv.ignore = true;
            out.push(strukt(repr_c, Style::Named, vec![Field::plain("a", p(Prim::U16)), igv.clone(), Field::plain("c", p(Prim::U16))]));
            igv.default = DefaultKind::Lit("7".into(), Val::U(7));
            out.push(strukt(repr_c, Style::Named, vec![Field::plain("a", p(Prim::U32)), Field::plain("c", p(Prim::U32)), igv]));
        }
        // a removed field as the LAST thing in the encoding (nothing behind it re-discovers a
        // problem while skipping it)
        for t in [p(Prim::U32), p(Prim::String), Ty::Seq(SeqKind::Vec, Box::new(p(Prim::String)))] {
            for flavour in [RemovedKind::Removed, RemovedKind::Abi] {
                let mut r = versioned(Field::plain("b", t.clone()), 0, 0);
                r.removed = flavour;
                out.push(strukt(repr_c, Style::Named, vec![Field::plain("a", p(Prim::U32)), r]));
            }
        }
        // Removed<T> whose range does not start at version 0 (added at 1, removed after 2)
        for t in [p(Prim::U32), p(Prim::String)] {
            for flavour in [RemovedKind::Removed, RemovedKind::Abi] {
                let mut r = versioned(Field::plain("b", t.clone()), 1, 2);
                r.removed = flavour;
                out.push(strukt(repr_c, Style::Named, vec![Field::plain("a", p(Prim::U32)), r, Field::plain("c", p(Prim::U32))]));
            }
        }
        // converted field: u8 at v0, u16 from v1
        let mut cf = versioned(Field::plain("b", p(Prim::U16)), 1, u32::MAX);
        cf.versions_as = vec![VersionsAs {
            from: 0,
            to: 0,
            ty: p(Prim::U8),
            conv: Conv::From,
        }];
        out.push(strukt(repr_c, Style::Named, vec![Field::plain("a", p(Prim::U16)), cf]));
        let mut cs = versioned(Field::plain("b", p(Prim::String)), 1, u32::MAX);
        cs.versions_as = vec![VersionsAs {
            from: 0,
            to: 0,
            ty: p(Prim::U32),
            conv: Conv::ToStringFn,
        }];
        out.push(strukt(repr_c, Style::Named, vec![Field::plain("a", p(Prim::U16)), cs, Field::plain("c", p(Prim::U8))]));
    }
    // enum variant added at v1, field added inside a variant
    {
        let mut v2 = tuple_variant("B", &[p(Prim::U16)], None);
        v2.from = 1;
        out.push(enm(None, false, vec![unit_variant("A", None), v2.clone()]));
        out.push(enm(Some(IntRepr::U8), false, vec![tuple_variant("A", &[p(Prim::U8)], None), v2]));
        let mut v = named_variant("A", &[p(Prim::U8), p(Prim::U8)], None);
        v.fields[1] = versioned(v.fields[1].clone(), 1, u32::MAX);
        out.push(enm(Some(IntRepr::U8), true, vec![v, tuple_variant("B", &[p(Prim::U8)], None)]));
    }
    // runs of same-alignment fields of different sizes (or same size, niche / non-niche mixed):
    // rustc may permute the interior of such a run in a repr(Rust) struct; the partial bulk
    // write of the derived serializer ("deferred raw region") and the whole-struct packed
    // decision must both notice
    {
        let a = |n: usize| Ty::Array(Box::new(p(Prim::U8)), n);
        let align1 = [a(4), p(Prim::U8), a(2), p(Prim::Bool)];
        let mut seqs: Vec<Vec<Ty>> = vec![];
        for i in 0..4 {
            for j in 0..4 {
                for k in 0..4 {
                    for l in 0..4 {
                        let idx = [i, j, k, l];
                        let distinct: std::collections::HashSet<_> = idx.iter().collect();
                        // all permutations, plus X,u8,Y,u8-like patterns with a repeated leaf
                        let keep = distinct.len() == 4 || (thorough && distinct.len() == 3) || (distinct.len() == 3 && j == l && i != k);
                        if keep {
                            seqs.push(idx.iter().map(|x| align1[*x].clone()).collect());
                        }
                    }
                }
            }
        }
        for (x, y) in [(p(Prim::Bool), p(Prim::U8)), (p(Prim::Char), p(Prim::U32))] {
            for mask in 0..16u32 {
                if mask == 0 || mask == 15 {
                    continue;
                }
                seqs.push((0..4).map(|b| if mask >> b & 1 == 1 { x.clone() } else { y.clone() }).collect());
            }
        }
        for fs in seqs {
            out.push(strukt(false, Style::Named, fields_of(&fs)));
            // with a non-packed tail, so that the struct as a whole is never packed and the
            // partial bulk write of the run is what gets exercised
            let mut with_tail = fs.clone();
            with_tail.push(p(Prim::String));
            out.push(strukt(false, Style::Named, fields_of(&with_tail)));
        }
    }
    // over-aligned structs: larger than the sum of their fields, so never one raw block
    {
        let al = |repr_c: bool, align: u32, style: Style, tys: &[Ty]| {
            Ty::Def(mk_def(
                DefKind::Struct(StructDef {
                    repr_c,
                    align: Some(align),
                    style,
                    fields: fields_of(tys),
                }),
                false,
                0,
            ))
        };
        out.push(al(true, 16, Style::Named, &[Ty::Array(Box::new(p(Prim::F32)), 3)]));
        out.push(al(false, 8, Style::Tuple, &[p(Prim::U32)]));
        out.push(al(false, 4, Style::Tuple, &[p(Prim::U8)]));
        out.push(al(true, 8, Style::Named, &[p(Prim::U32), p(Prim::U32)])); // exactly fills: may be packed
        out.push(al(true, 8, Style::Named, &[p(Prim::U16), p(Prim::U16)]));
        out.push(al(false, 16, Style::Named, &[p(Prim::U64), p(Prim::U32)]));
        out.push(al(false, 2, Style::Tuple, &[p(Prim::Bool)]));
    }
    // structs all of whose fields were added later: at data version 0 they consume no bytes at all
    for repr_c in [false, true] {
        let mut a = Field::plain("a", p(Prim::U8));
        a.from = 1;
        let mut b = Field::plain("b", p(Prim::String));
        b.from = 1;
        out.push(strukt(repr_c, Style::Named, vec![a.clone(), b.clone()]));
        let mut c = Field::plain("c", p(Prim::U32));
        c.from = 2;
        out.push(strukt(repr_c, Style::Named, vec![a, c]));
    }
    // a versioned variant inserted in the MIDDLE (not a documented evolution): at the old version
    // the later variants keep their shifted indices, so old data must be rejected by the gate
    for ri in [None, Some(IntRepr::U8)] {
        for payload in [p(Prim::U32), p(Prim::String)] {
            out.push(enm(ri, false, vec![unit_variant("Nothing", None), tuple_variant("Circle", &[payload.clone()], None)]));
            let mut mid = unit_variant("Point", None);
            mid.from = 1;
            out.push(enm(ri, false, vec![unit_variant("Nothing", None), mid.clone(), tuple_variant("Circle", &[payload.clone()], None)]));
            // the variant behind the inserted one is itself a unit variant
            let mut mid2 = unit_variant("Point", None);
            mid2.from = 1;
            out.push(enm(ri, false, vec![tuple_variant("Circle", &[payload.clone()], None), unit_variant("Low", None), unit_variant("High", None)]));
            out.push(enm(ri, false, vec![tuple_variant("Circle", &[payload.clone()], None), unit_variant("Low", None), mid2, unit_variant("High", None)]));
            let mut first = unit_variant("Point", None);
            first.from = 1;
            out.push(enm(ri, false, vec![first, unit_variant("Nothing", None), tuple_variant("Circle", &[payload.clone()], None)]));
        }
    }
    dedup(out)
}

fn dedup(v: Vec<Ty>) -> Vec<Ty> {
    let mut seen = std::collections::HashSet::new();
    v.into_iter().filter(|t| seen.insert(t.rust())).collect()
}

fn lib(key: &str, rust: &str, wire: Ty) -> Ty {
    Ty::Lib(LibTy {
        key: key.into(),
        rust: rust.into(),
        wire: Box::new(wire),
        opaque: false,
    })
}
fn opaque_lib(key: &str, rust: &str, val_shape: Ty) -> Ty {
    Ty::Lib(LibTy {
        key: key.into(),
        rust: rust.into(),
        wire: Box::new(val_shape),
        opaque: true,
    })
}

/// F-lib: instantiations of library types with a hand-written Serialize impl.
pub fn f_lib(_thorough: bool) -> Vec<Ty> {
    use MapKind::*;
    use Prim::*;
    use SeqKind::*;
    let b = |t: Ty| Box::new(t);
    let mut out = vec![];
    for x in [U8, I8, U16, I16, U32, I32, U64, I64, U128, I128, F32, F64, Bool, Char, Usize, Isize, String, Unit] {
        out.push(p(x));
    }
    for k in [Vec, VecDeque, BoxSlice, ArcSlice, BTreeSet, HashSet, BinaryHeap, ArrayVec(4), SmallVec(2), IndexSet] {
        out.push(Ty::Seq(k, b(p(U32))));
    }
    for k in [Vec, VecDeque, BoxSlice, ArcSlice, ArrayVec(4), SmallVec(2)] {
        out.push(Ty::Seq(k, b(p(U8))));
        out.push(Ty::Seq(k, b(p(String))));
        out.push(Ty::Seq(k, b(p(Bool))));
        out.push(Ty::Seq(k, b(leaf_p2())));
        out.push(Ty::Seq(k, b(leaf_e_explicit())));
    }
    out.push(Ty::Seq(Vec, b(p(Unit))));
    out.push(Ty::Seq(Vec, b(p(Char))));
    out.push(Ty::Seq(Vec, b(p(U128))));
    out.push(Ty::Seq(Vec, b(p(F64))));
    out.push(Ty::Seq(Vec, b(Ty::Seq(Vec, b(p(U16))))));
    out.push(Ty::Seq(Vec, b(Ty::Opt(b(p(String))))));
    out.push(Ty::Seq(Vec, b(Ty::Tuple(vec![p(U8), p(U8)]))));
    out.push(Ty::Seq(Vec, b(Ty::Tuple(vec![p(U8), p(U32)]))));
    out.push(Ty::Seq(Vec, b(Ty::Array(b(p(U16)), 2))));
    out.push(Ty::Seq(HashSet, b(p(String))));
    out.push(Ty::Seq(BTreeSet, b(p(String))));
    for k in [HashMap, BTreeMap, IndexMap] {
        out.push(Ty::Map(k, b(p(U32)), b(p(String))));
        out.push(Ty::Map(k, b(p(String)), b(Ty::Seq(Vec, b(p(U32))))));
        out.push(Ty::Map(k, b(p(U8)), b(leaf_p2())));
        // value type mentions the key type again (recursion guard of the schema builder)
        out.push(Ty::Map(k, b(p(U32)), b(Ty::Seq(Vec, b(p(U32))))));
    }
    for t in [p(U8), p(String), leaf_p2(), Ty::Seq(Vec, b(p(U8)))] {
        out.push(Ty::Opt(b(t.clone())));
        out.push(Ty::Res(b(t.clone()), b(p(String))));
        out.push(Ty::Res(b(p(U32)), b(t.clone())));
        for w in [WrapKind::Box, WrapKind::Rc, WrapKind::Arc, WrapKind::RefCell, WrapKind::Mutex, WrapKind::RwLock, WrapKind::PlMutex] {
            out.push(Ty::Wrap(w, b(t.clone())));
        }
    }
    out.push(Ty::Opt(b(Ty::Opt(b(p(U8))))));
    out.push(Ty::Opt(b(Ty::Wrap(WrapKind::Box, b(p(U64))))));
    for n in [0usize, 1, 3, 4] {
        out.push(Ty::Array(b(p(U8)), n));
        out.push(Ty::Array(b(p(U32)), n));
        out.push(Ty::Array(b(p(String)), n));
        out.push(Ty::Array(b(leaf_p2()), n));
        out.push(Ty::Array(b(leaf_e_explicit()), n));
    }
    out.push(Ty::Tuple(vec![p(U8)]));
    out.push(Ty::Tuple(vec![p(U8), p(U8)]));
    out.push(Ty::Tuple(vec![p(U8), p(U32)]));
    out.push(Ty::Tuple(vec![p(U16), p(U16), p(U16)]));
    out.push(Ty::Tuple(vec![p(U8), p(String), p(U16)]));
    out.push(Ty::Tuple(vec![leaf_p2(), leaf_p2()]));
    // string-likes
    out.push(lib("PathBuf", "std::path::PathBuf", p(String)));
    out.push(lib("ArcStr", "std::sync::Arc<str>", p(String)));
    out.push(lib("ArrayString", "vglue::arrayvec::ArrayString<8>", p(String)));
    out.push(lib("CowStr", "std::borrow::Cow<'static, str>", p(String)));
    out.push(Ty::Seq(Vec, b(lib("ArcStr", "std::sync::Arc<str>", p(String)))));
    // time / net / misc (wire-equivalent descriptions of the documented encodings)
    out.push(lib("Duration", "std::time::Duration", p(U128)));
    out.push(lib("SystemTime", "std::time::SystemTime", p(U128)));
    out.push(lib("DateTimeUtc", "vglue::chrono::DateTime<vglue::chrono::Utc>", p(I64)));
    out.push(lib("Canary1", "savefile::Canary1", p(U32)));
    out.push(lib("Range", "std::ops::Range<u32>", Ty::Tuple(vec![p(U32), p(U32)])));
    let ip_wire = enm(None, false, vec![tuple_variant("IPV4", &[p(U32)], None), tuple_variant("IPV6", &[p(U128)], None)]);
    out.push(lib("IpAddr", "std::net::IpAddr", ip_wire));
    let sock_wire = enm(
        None,
        false,
        vec![tuple_variant("IPV4", &[p(U16), p(U32)], None), tuple_variant("IPV6", &[p(U16), p(U128), p(U32), p(U32)], None)],
    );
    out.push(lib("SocketAddr", "std::net::SocketAddr", sock_wire));
    out.push(Ty::Seq(Vec, b(lib("Duration", "std::time::Duration", p(U128)))));
    // nalgebra (documented as their coordinates one after the other)
    out.push(lib("Point3f32", "vglue::nalgebra::Point3<f32>", Ty::Tuple(vec![p(F32), p(F32), p(F32)])));
    out.push(lib("Vector3f64", "vglue::nalgebra::Vector3<f64>", Ty::Tuple(vec![p(F64), p(F64), p(F64)])));
    out.push(Ty::Seq(Vec, b(lib("Point3f32", "vglue::nalgebra::Point3<f32>", Ty::Tuple(vec![p(F32), p(F32), p(F32)])))));
    // an Isometry3 is documented as translation x,y,z then rotation w,i,j,k (NOT its memory order)
    let iso32 = lib("Isometry3f32", "vglue::nalgebra::Isometry3<f32>", Ty::Tuple(vec![p(F32); 7]));
    let iso64 = lib("Isometry3f64", "vglue::nalgebra::Isometry3<f64>", Ty::Tuple(vec![p(F64); 7]));
    let pt32 = lib("Point3f32", "vglue::nalgebra::Point3<f32>", Ty::Tuple(vec![p(F32), p(F32), p(F32)]));
    out.push(iso32.clone());
    out.push(iso64.clone());
    out.push(Ty::Seq(Vec, b(iso64.clone())));
    out.push(Ty::Array(b(iso32.clone()), 3));
    // derived structs all of whose fields are fixed-size: the struct asks its fields whether
    // the whole of it may be copied as raw memory
    for repr_c in [false, true] {
        out.push(strukt(repr_c, Style::Named, fields_of(&[p(F64), iso64.clone()])));
        out.push(strukt(repr_c, Style::Named, fields_of(&[iso32.clone(), p(F32)])));
        out.push(strukt(repr_c, Style::Named, fields_of(&[p(F32), pt32.clone()])));
        out.push(strukt(repr_c, Style::Named, fields_of(&[pt32.clone(), pt32.clone()])));
    }
    out.push(Ty::Opt(b(strukt(true, Style::Named, fields_of(&[p(F64), iso64.clone()])))));
    // tuples without padding whose elements rustc stores in another order than declared
    out.push(Ty::Tuple(vec![p(U16), p(U32), p(U16)]));
    out.push(Ty::Tuple(vec![p(U32), p(U64), p(U32)]));
    out.push(Ty::Tuple(vec![p(U8), p(U16), p(U8)]));
    out.push(Ty::Tuple(vec![p(U8), p(Bool), p(U8)]));
    out.push(Ty::Tuple(vec![p(U8), p(U64)]));
    // tuples holding a derived struct with a version history (each position): the tuple's packed
    // answer must follow the answers of ALL its components at every version
    {
        let sv = strukt(true, Style::Named, vec![Field::plain("a", p(U32)), versioned(Field::plain("b", p(U32)), 1, u32::MAX)]);
        out.push(Ty::Tuple(vec![p(U32), p(U32), sv.clone()]));
        out.push(Ty::Tuple(vec![p(U32), sv.clone(), p(U32)]));
        out.push(Ty::Tuple(vec![sv.clone(), p(U32), p(U32)]));
        out.push(Ty::Tuple(vec![p(U32), sv.clone()]));
        out.push(Ty::Array(b(sv.clone()), 3));
        out.push(Ty::Opt(b(sv)));
    }
    // element type with a counted destructor (rejects the byte 0xFF): error paths of sequence
    // and array loaders must not drop what they never built
    let probe = lib("DropProbe", "vglue::probe::DropProbe", p(U8));
    out.push(probe.clone());
    out.push(Ty::Array(b(probe.clone()), 3));
    out.push(Ty::Seq(Vec, b(probe.clone())));
    out.push(Ty::Seq(VecDeque, b(probe.clone())));
    out.push(Ty::Tuple(vec![probe.clone(), probe.clone()]));
    out.push(Ty::Array(b(Ty::Opt(b(p(String)))), 3));
    // library types whose wire format is not modelled (value shape only)
    out.push(opaque_lib("BitVec", "vglue::bit_vec::BitVec", Ty::Seq(Vec, b(p(Bool)))));
    out.push(opaque_lib("BitVec08", "vglue::bit_vec08::BitVec", Ty::Seq(Vec, b(p(Bool)))));
    out.push(opaque_lib("BitSet", "vglue::bit_set::BitSet", Ty::Seq(Vec, b(p(U32)))));
    out.push(opaque_lib("BitSet08", "vglue::bit_set08::BitSet", Ty::Seq(Vec, b(p(U32)))));
    // atomics
    for (k, r, w) in [
        ("AtomicBool", "std::sync::atomic::AtomicBool", Bool),
        ("AtomicU8", "std::sync::atomic::AtomicU8", U8),
        ("AtomicI8", "std::sync::atomic::AtomicI8", I8),
        ("AtomicU16", "std::sync::atomic::AtomicU16", U16),
        ("AtomicI16", "std::sync::atomic::AtomicI16", I16),
        ("AtomicU32", "std::sync::atomic::AtomicU32", U32),
        ("AtomicI32", "std::sync::atomic::AtomicI32", I32),
        ("AtomicU64", "std::sync::atomic::AtomicU64", U64),
        ("AtomicI64", "std::sync::atomic::AtomicI64", I64),
        ("AtomicUsize", "std::sync::atomic::AtomicUsize", Usize),
        ("AtomicIsize", "std::sync::atomic::AtomicIsize", Isize),
    ] {
        out.push(lib(k, r, p(w)));
    }
    dedup(out)
}

/// All generated families: (module name, types). Thorough-only families list only the types
/// that are not already part of the quick family.
pub fn all_families() -> Vec<(&'static str, Vec<Ty>)> {
    static CACHE: std::sync::OnceLock<Vec<(&'static str, Vec<Ty>)>> = std::sync::OnceLock::new();
    CACHE.get_or_init(compute_families).clone()
}
pub fn family(name: &str) -> Vec<Ty> {
    // computed lazily and separately: child processes of the engines start thousands of times
    // and usually need only the quick families
    static CACHE: std::sync::OnceLock<std::sync::Mutex<std::collections::HashMap<String, Vec<Ty>>>> = std::sync::OnceLock::new();
    let m = CACHE.get_or_init(Default::default);
    if let Some(v) = m.lock().unwrap().get(name) {
        return v.clone();
    }
    let v = match name {
        "types" => f_types(false),
        "lib" => f_lib(false),
        "hist" => crate::hist::hist_tree(false).into_iter().map(|n| n.ty).collect(),
        other => compute_families().into_iter().find(|(n, _)| *n == other).map(|x| x.1).unwrap_or_default(),
    };
    m.lock().unwrap().insert(name.to_string(), v.clone());
    v
}
fn compute_families() -> Vec<(&'static str, Vec<Ty>)> {
    let quick = f_types(false);
    let names: std::collections::HashSet<String> = quick.iter().map(|t| t.rust()).collect();
    let extra: Vec<Ty> = f_types(true).into_iter().filter(|t| !names.contains(&t.rust())).collect();
    let hq: Vec<Ty> = crate::hist::hist_tree(false).into_iter().map(|n| n.ty).collect();
    let hnames: std::collections::HashSet<String> = hq.iter().map(|t| t.rust()).collect();
    let hextra: Vec<Ty> = crate::hist::hist_tree(true).into_iter().map(|n| n.ty).filter(|t| !hnames.contains(&t.rust())).collect();
    vec![("types", quick), ("lib", f_lib(false)), ("hist", hq), ("types_thorough", extra), ("hist_thorough", hextra)]
}
