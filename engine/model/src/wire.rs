//! Independent reference encoder / decoder of the documented savefile wire format.
//! Written from the crate documentation (README / lib.rs module docs / Serializer primitive
//! docs), not from the `Serialize` impls.
use crate::ty::*;

#[derive(Clone, Copy, Debug, PartialEq, Eq)]
pub enum MarkKind {
    /// u64 length prefix of a string; `elem_min` = 1
    StrLen,
    /// u64 length prefix of a sequence / map
    SeqLen,
    /// one byte option / result tag
    Tag,
    /// enum variant index, `width` bytes
    Discr,
    Bool,
    Char,
}

#[derive(Clone, Debug)]
pub struct Mark {
    pub pos: usize,
    pub width: usize,
    pub kind: MarkKind,
    /// for lengths: minimal wire size of one element (0 for ZST elements)
    pub elem_min: usize,
    /// for lengths: the encoded count; for Discr: number of variants
    pub n: u64,
}

#[derive(Default, Clone, Debug)]
pub struct Enc {
    pub bytes: Vec<u8>,
    pub marks: Vec<Mark>,
}

impl Enc {
    fn mark(&mut self, width: usize, kind: MarkKind, elem_min: usize, n: u64) {
        self.marks.push(Mark {
            pos: self.bytes.len(),
            width,
            kind,
            elem_min,
            n,
        });
    }
    fn le(&mut self, v: u128, width: usize) {
        self.bytes.extend_from_slice(&v.to_le_bytes()[..width]);
    }
}

#[derive(Debug, Clone, PartialEq, Eq)]
pub enum WireErr {
    /// value does not fit the description (model misuse)
    Shape(String),
    /// the value cannot be written at this version (e.g. `Removed` field in range, new variant)
    NotRepresentable(String),
    Eof,
    Invalid(String),
    /// the type contains a library type whose wire format is not modelled
    Opaque,
}

pub fn min_wire_size(ty: &Ty, ver: u32) -> usize {
    match ty {
        Ty::Prim(p) => p.wire_size().unwrap_or(8),
        Ty::Opt(_) | Ty::Res(_, _) => 1,
        Ty::Wrap(_, t) => min_wire_size(t, ver),
        Ty::Seq(_, _) | Ty::Map(_, _, _) => 8,
        Ty::Array(t, n) => n * min_wire_size(t, ver),
        Ty::Tuple(ts) => ts.iter().map(|t| min_wire_size(t, ver)).sum(),
        Ty::Lib(l) if l.opaque => 0,
        Ty::Lib(l) => min_wire_size(&l.wire, ver),
        Ty::Def(d) => match &d.kind {
            DefKind::Struct(s) => s
                .fields
                .iter()
                .filter(|f| f.present_at(ver))
                .map(|f| min_wire_size(&f.ty, ver))
                .sum(),
            DefKind::Enum(e) => e.wire_width(),
        },
    }
}

pub fn encode(ty: &Ty, v: &Val, ver: u32) -> Result<Enc, WireErr> {
    let mut e = Enc::default();
    enc(ty, v, ver, &mut e)?;
    Ok(e)
}

fn shape<T>(ty: &Ty, v: &Val) -> Result<T, WireErr> {
    Err(WireErr::Shape(format!("{} vs {}", ty.describe(), v.short())))
}

fn enc(ty: &Ty, v: &Val, ver: u32, e: &mut Enc) -> Result<(), WireErr> {
    match (ty, v) {
        (Ty::Prim(p), v) => enc_prim(*p, v, e, ty),
        (Ty::Opt(_), Val::None) => {
            e.mark(1, MarkKind::Tag, 0, 2);
            e.bytes.push(0);
            Ok(())
        }
        (Ty::Opt(t), Val::Some(x)) => {
            e.mark(1, MarkKind::Tag, 0, 2);
            e.bytes.push(1);
            enc(t, x, ver, e)
        }
        (Ty::Res(t, _), Val::Ok(x)) => {
            e.mark(1, MarkKind::Tag, 0, 2);
            e.bytes.push(1);
            enc(t, x, ver, e)
        }
        (Ty::Res(_, t), Val::Err(x)) => {
            e.mark(1, MarkKind::Tag, 0, 2);
            e.bytes.push(0);
            enc(t, x, ver, e)
        }
        (Ty::Wrap(_, t), x) => enc(t, x, ver, e),
        (Ty::Lib(l), _) if l.opaque => Err(WireErr::Opaque),
        (Ty::Lib(l), x) => enc(&l.wire, x, ver, e),
        (Ty::Seq(_, t), Val::Seq(items)) => {
            e.mark(8, MarkKind::SeqLen, min_wire_size(t, ver), items.len() as u64);
            e.le(items.len() as u128, 8);
            for x in items {
                enc(t, x, ver, e)?;
            }
            Ok(())
        }
        (Ty::Map(_, kt, vt), Val::Map(items)) => {
            e.mark(
                8,
                MarkKind::SeqLen,
                min_wire_size(kt, ver) + min_wire_size(vt, ver),
                items.len() as u64,
            );
            e.le(items.len() as u128, 8);
            for (k, x) in items {
                enc(kt, k, ver, e)?;
                enc(vt, x, ver, e)?;
            }
            Ok(())
        }
        (Ty::Array(t, n), Val::Seq(items)) if items.len() == *n => {
            for x in items {
                enc(t, x, ver, e)?;
            }
            Ok(())
        }
        (Ty::Tuple(ts), Val::Tuple(items)) if items.len() == ts.len() => {
            for (t, x) in ts.iter().zip(items) {
                enc(t, x, ver, e)?;
            }
            Ok(())
        }
        (Ty::Def(d), v) => match (&d.kind, v) {
            (DefKind::Struct(s), Val::Struct(items)) if items.len() == s.fields.len() => enc_fields(&s.fields, items, ver, e),
            (DefKind::Enum(en), Val::Variant(i, items)) if (*i as usize) < en.variants.len() => {
                let var = &en.variants[*i as usize];
                if ver < var.from {
                    return Err(WireErr::NotRepresentable(format!(
                        "variant {} does not exist at version {}",
                        var.name, ver
                    )));
                }
                if items.len() != var.fields.len() {
                    return shape(ty, v);
                }
                let w = en.wire_width();
                e.mark(w, MarkKind::Discr, 0, en.variants.len() as u64);
                e.le(*i as u128, w);
                enc_fields(&var.fields, items, ver, e)
            }
            _ => shape(ty, v),
        },
        _ => shape(ty, v),
    }
}

fn enc_fields(fields: &[Field], items: &[Val], ver: u32, e: &mut Enc) -> Result<(), WireErr> {
    for (f, x) in fields.iter().zip(items) {
        if !f.ignore && f.versions_as.iter().any(|va| ver >= va.from && ver <= va.to) {
            // the documented attribute only describes how to *read* the old representation
            return Err(WireErr::NotRepresentable(format!(
                "converted field {} cannot be written in its old representation (version {})",
                f.name, ver
            )));
        }
        if !f.present_at(ver) {
            continue;
        }
        match f.removed {
            RemovedKind::No => enc(&f.ty, x, ver, e)?,
            RemovedKind::Removed => {
                return Err(WireErr::NotRepresentable(format!(
                    "Removed field {} is in range at version {}",
                    f.name, ver
                )))
            }
            RemovedKind::Abi | RemovedKind::AbiCtor => {
                let dv = field_default(f);
                enc(&f.ty, &dv, ver, e)?
            }
        }
    }
    Ok(())
}

fn enc_prim(p: Prim, v: &Val, e: &mut Enc, ty: &Ty) -> Result<(), WireErr> {
    match (p, v) {
        (Prim::Unit, Val::Unit) => Ok(()),
        (Prim::Bool, Val::Bool(b)) => {
            e.mark(1, MarkKind::Bool, 0, 0);
            e.bytes.push(*b as u8);
            Ok(())
        }
        (Prim::Char, Val::Char(c)) => {
            e.mark(4, MarkKind::Char, 0, 0);
            e.le(*c as u128, 4);
            Ok(())
        }
        (Prim::F32, Val::F32(b)) => {
            e.le(*b as u128, 4);
            Ok(())
        }
        (Prim::F64, Val::F64(b)) => {
            e.le(*b as u128, 8);
            Ok(())
        }
        (Prim::String, Val::Str(s)) => {
            e.mark(8, MarkKind::StrLen, 1, s.len() as u64);
            e.le(s.len() as u128, 8);
            e.bytes.extend_from_slice(s.as_bytes());
            Ok(())
        }
        (p, Val::U(x)) if p.is_int() && !p.signed() => {
            e.le(*x, p.wire_size().unwrap());
            Ok(())
        }
        (p, Val::I(x)) if p.is_int() && p.signed() => {
            e.le(*x as u128, p.wire_size().unwrap());
            Ok(())
        }
        _ => shape(ty, v),
    }
}

pub struct Dec<'a> {
    pub b: &'a [u8],
    pub pos: usize,
}
impl<'a> Dec<'a> {
    fn take(&mut self, n: usize) -> Result<&'a [u8], WireErr> {
        if self.b.len() - self.pos < n {
            return Err(WireErr::Eof);
        }
        let s = &self.b[self.pos..self.pos + n];
        self.pos += n;
        Ok(s)
    }
    fn le(&mut self, n: usize) -> Result<u128, WireErr> {
        let s = self.take(n)?;
        let mut buf = [0u8; 16];
        buf[..n].copy_from_slice(s);
        Ok(u128::from_le_bytes(buf))
    }
}

/// Decode `bytes` written at `file_ver` into the in-memory value of the (current) definition
/// `ty`: fields absent at `file_ver` take their declared default, removed fields are skipped,
/// converted fields hold the conversion. Returns the value and the number of bytes consumed.
pub fn decode(ty: &Ty, bytes: &[u8], file_ver: u32) -> Result<(Val, usize), WireErr> {
    let mut d = Dec { b: bytes, pos: 0 };
    let v = dec(ty, file_ver, &mut d)?;
    Ok((v, d.pos))
}

fn sign_extend(x: u128, width: usize) -> i128 {
    let shift = 128 - 8 * width as u32;
    ((x << shift) as i128) >> shift
}

fn dec(ty: &Ty, ver: u32, d: &mut Dec) -> Result<Val, WireErr> {
    Ok(match ty {
        Ty::Prim(p) => match p {
            Prim::Unit => Val::Unit,
            // documented: "Reads a u8 and return true if equal to 1"
            Prim::Bool => Val::Bool(d.le(1)? == 1),
            Prim::Char => {
                let c = d.le(4)? as u32;
                if char::from_u32(c).is_none() {
                    return Err(WireErr::Invalid("char".into()));
                }
                Val::Char(c)
            }
            Prim::F32 => Val::F32(d.le(4)? as u32),
            Prim::F64 => Val::F64(d.le(8)? as u64),
            Prim::String => {
                let n = d.le(8)?;
                if n > (d.b.len() - d.pos) as u128 {
                    return Err(WireErr::Eof);
                }
                let s = d.take(n as usize)?;
                Val::Str(String::from_utf8(s.to_vec()).map_err(|_| WireErr::Invalid("utf8".into()))?)
            }
            p if p.signed() => {
                let w = p.wire_size().unwrap();
                Val::I(sign_extend(d.le(w)?, w))
            }
            p => Val::U(d.le(p.wire_size().unwrap())?),
        },
        Ty::Opt(t) => match d.le(1)? {
            // documented: tag byte is a bool written by write_bool / read by read_bool
            1 => Val::some(dec(t, ver, d)?),
            _ => Val::None,
        },
        Ty::Res(t, e) => match d.le(1)? {
            1 => Val::Ok(Box::new(dec(t, ver, d)?)),
            _ => Val::Err(Box::new(dec(e, ver, d)?)),
        },
        Ty::Wrap(_, t) => dec(t, ver, d)?,
        Ty::Lib(l) if l.opaque => return Err(WireErr::Opaque),
        Ty::Lib(l) => dec(&l.wire, ver, d)?,
        Ty::Seq(_, t) => {
            let n = d.le(8)?;
            let min = min_wire_size(t, ver).max(0) as u128;
            if min > 0 && n * min > (d.b.len() - d.pos) as u128 {
                return Err(WireErr::Eof);
            }
            if min == 0 && n > 1 << 20 {
                return Err(WireErr::Invalid("absurd ZST count".into()));
            }
            let mut items = Vec::new();
            for _ in 0..n {
                items.push(dec(t, ver, d)?);
            }
            Val::Seq(items)
        }
        Ty::Map(_, kt, vt) => {
            let n = d.le(8)?;
            let min = (min_wire_size(kt, ver) + min_wire_size(vt, ver)) as u128;
            if min > 0 && n * min > (d.b.len() - d.pos) as u128 {
                return Err(WireErr::Eof);
            }
            if min == 0 && n > 1 << 20 {
                return Err(WireErr::Invalid("absurd ZST count".into()));
            }
            let mut items = Vec::new();
            for _ in 0..n {
                let k = dec(kt, ver, d)?;
                let v = dec(vt, ver, d)?;
                items.push((k, v));
            }
            Val::Map(items)
        }
        Ty::Array(t, n) => {
            let mut items = Vec::new();
            for _ in 0..*n {
                items.push(dec(t, ver, d)?);
            }
            Val::Seq(items)
        }
        Ty::Tuple(ts) => {
            let mut items = Vec::new();
            for t in ts {
                items.push(dec(t, ver, d)?);
            }
            Val::Tuple(items)
        }
        Ty::Def(def) => match &def.kind {
            DefKind::Struct(s) => Val::Struct(dec_fields(&s.fields, ver, d)?),
            DefKind::Enum(en) => {
                let w = en.wire_width();
                let i = d.le(w)?;
                if i >= en.variants.len() as u128 {
                    return Err(WireErr::Invalid("unknown variant".into()));
                }
                Val::Variant(i as u32, dec_fields(&en.variants[i as usize].fields, ver, d)?)
            }
        },
    })
}

fn dec_fields(fields: &[Field], ver: u32, d: &mut Dec) -> Result<Vec<Val>, WireErr> {
    let mut out = vec![];
    for f in fields {
        if f.ignore {
            out.push(field_default(f));
            continue;
        }
        if let Some(va) = f.versions_as.iter().find(|va| ver >= va.from && ver <= va.to) {
            let old = dec(&va.ty, ver, d)?;
            out.push(convert(va.conv, &old, &f.ty));
            continue;
        }
        if ver >= f.from && ver <= f.to {
            let v = dec(&f.ty, ver, d)?;
            out.push(if f.removed != RemovedKind::No { Val::Unit } else { v });
        } else if f.removed != RemovedKind::No {
            out.push(Val::Unit);
        } else {
            out.push(field_default(f));
        }
    }
    Ok(out)
}

pub fn convert(conv: Conv, old: &Val, _new_ty: &Ty) -> Val {
    match conv {
        Conv::From => old.clone(),
        Conv::ToStringFn => Val::Str(format!("{}", old.as_u())),
    }
}

/// The value an absent / ignored field takes in memory; for AbiRemoved: the value its
/// constructor writes.
pub fn field_default(f: &Field) -> Val {
    match &f.default {
        DefaultKind::Trait => default_of(&f.ty),
        DefaultKind::Lit(_, v) => v.clone(),
        DefaultKind::Fn(v) => v.clone(),
    }
}

/// `Default::default()` of a type
pub fn default_of(ty: &Ty) -> Val {
    match ty {
        Ty::Prim(p) => match p {
            Prim::Unit => Val::Unit,
            Prim::Bool => Val::Bool(false),
            Prim::Char => Val::Char(0),
            Prim::F32 => Val::F32(0),
            Prim::F64 => Val::F64(0),
            Prim::String => Val::Str(String::new()),
            p if p.signed() => Val::I(0),
            _ => Val::U(0),
        },
        Ty::Opt(_) => Val::None,
        Ty::Res(_, _) => panic!("Result has no Default"),
        Ty::Wrap(_, t) => default_of(t),
        Ty::Lib(l) => default_of(&l.wire),
        Ty::Seq(_, _) => Val::Seq(vec![]),
        Ty::Map(_, _, _) => Val::Map(vec![]),
        Ty::Array(t, n) => Val::Seq((0..*n).map(|_| default_of(t)).collect()),
        Ty::Tuple(ts) => Val::Tuple(ts.iter().map(default_of).collect()),
        Ty::Def(d) => match &d.kind {
            DefKind::Struct(s) => Val::Struct(
                s.fields
                    .iter()
                    .map(|f| if f.removed != RemovedKind::No { Val::Unit } else { default_of(&f.ty) })
                    .collect(),
            ),
            DefKind::Enum(e) => {
                // generated enums with derive_default mark the first variant #[default] (unit)
                assert!(e.variants[0].fields.is_empty());
                Val::Variant(0, vec![])
            }
        },
    }
}

/// What a definition `ty` holds in memory after loading `v_old` (a value of the same definition
/// as seen at `old_ver`, i.e. with absent fields holding defaults) — identity here because the
/// in-memory representation always is the newest one; kept for readability of engines.
pub fn header(lib_version: u16, data_version: u32, compressed: bool) -> Vec<u8> {
    let mut h = b"savefile\0".to_vec();
    h.extend_from_slice(&lib_version.to_le_bytes());
    h.extend_from_slice(&data_version.to_le_bytes());
    h.push(compressed as u8);
    h
}

pub const HEADER_LEN: usize = 16;
pub const CURRENT_LIB_VERSION: u16 = 2;
