//! Independent model of savefile's schema tree and of its binary encoding at library format
//! versions 0, 1 and 2 (written from the format description, not by calling savefile).
#[derive(Clone, Debug, PartialEq, Eq, Hash, PartialOrd, Ord)]
pub enum RS {
    Struct {
        name: String,
        size: Option<u64>,
        align: Option<u64>,
        fields: Vec<RField>,
    },
    Enum {
        name: String,
        variants: Vec<RVariant>,
        discr_size: u8,
        explicit_repr: bool,
        size: Option<u64>,
        align: Option<u64>,
    },
    /// primitive code 1..=16 except 9
    Prim(u8),
    /// string with VecOrStringLayout code 0..=8
    PrimString(u8),
    Vector(Box<RS>, u8),
    Array(u64, Box<RS>),
    Option(Box<RS>),
    Undefined,
    ZeroSize,
    Custom(String),
    Boxed(Box<RS>),
    Slice(Box<RS>),
    Str,
    Reference(Box<RS>),
    Trait(bool, RTrait),
    FnClosure(bool, RTrait),
    Recursion(u64),
    StdIoError,
    Future(RTrait, bool, bool, bool),
    UninitSlice,
    UtcTimestamp,
}
#[derive(Clone, Debug, PartialEq, Eq, Hash, PartialOrd, Ord)]
pub struct RField {
    pub name: String,
    pub value: RS,
    pub offset: Option<u64>,
}
#[derive(Clone, Debug, PartialEq, Eq, Hash, PartialOrd, Ord)]
pub struct RVariant {
    pub name: String,
    pub discr: u8,
    pub fields: Vec<RField>,
}
#[derive(Clone, Debug, PartialEq, Eq, Hash, PartialOrd, Ord)]
pub struct RTrait {
    pub name: String,
    pub methods: Vec<RMethod>,
    pub sync: bool,
    pub send: bool,
}
#[derive(Clone, Debug, PartialEq, Eq, Hash, PartialOrd, Ord)]
pub struct RMethod {
    pub name: String,
    pub ret: RS,
    /// 0 = &self, 1 = &mut self, 2 = Pin<&mut Self>
    pub receiver: u8,
    pub async_heuristic: bool,
    pub args: Vec<RS>,
}

pub const PRIM_CODES: [u8; 15] = [1, 2, 3, 4, 5, 6, 7, 8, 10, 11, 12, 13, 14, 15, 16];

fn w_u64(o: &mut Vec<u8>, v: u64) {
    o.extend_from_slice(&v.to_le_bytes());
}
fn w_str(o: &mut Vec<u8>, s: &str) {
    w_u64(o, s.len() as u64);
    o.extend_from_slice(s.as_bytes());
}
fn w_opt(o: &mut Vec<u8>, v: Option<u64>) {
    match v {
        None => o.push(0),
        Some(x) => {
            o.push(1);
            w_u64(o, x)
        }
    }
}
fn w_fields(o: &mut Vec<u8>, fields: &[RField], ver: u16) {
    for f in fields {
        w_str(o, &f.name);
        enc(&f.value, ver, o);
        if ver > 0 {
            w_opt(o, f.offset);
        }
    }
}
fn w_trait(o: &mut Vec<u8>, t: &RTrait, ver: u16) {
    let mut name = t.name.clone();
    if t.sync {
        name += "+Sync";
    }
    if t.send {
        name += "+Send";
    }
    w_str(o, &name);
    w_u64(o, t.methods.len() as u64);
    for m in &t.methods {
        w_str(o, &m.name);
        enc(&m.ret, ver, o);
        if ver >= 2 {
            o.push(100 + m.receiver);
            o.push(m.async_heuristic as u8);
        }
        w_u64(o, m.args.len() as u64);
        for a in &m.args {
            enc(a, ver, o);
        }
    }
}

pub fn encode_schema(s: &RS, ver: u16) -> Vec<u8> {
    let mut o = vec![];
    enc(s, ver, &mut o);
    o
}

fn enc(s: &RS, ver: u16, o: &mut Vec<u8>) {
    match s {
        RS::Struct { name, size, align, fields } => {
            o.push(1);
            w_str(o, name);
            w_u64(o, fields.len() as u64);
            if ver > 0 {
                w_opt(o, *size);
                w_opt(o, *align);
            }
            w_fields(o, fields, ver);
        }
        RS::Enum {
            name,
            variants,
            discr_size,
            explicit_repr,
            size,
            align,
        } => {
            o.push(2);
            w_str(o, name);
            w_u64(o, variants.len() as u64);
            for v in variants {
                w_str(o, &v.name);
                o.push(v.discr);
                w_u64(o, v.fields.len() as u64);
                w_fields(o, &v.fields, ver);
            }
            if ver > 0 {
                o.push(*discr_size);
                o.push(*explicit_repr as u8);
                w_opt(o, *size);
                w_opt(o, *align);
            }
        }
        RS::Prim(c) => {
            o.push(3);
            o.push(*c);
        }
        RS::PrimString(l) => {
            o.push(3);
            o.push(9);
            if ver > 0 {
                o.push(*l);
            }
        }
        RS::Vector(inner, l) => {
            o.push(4);
            enc(inner, ver, o);
            if ver > 0 {
                o.push(*l);
            }
        }
        RS::Undefined => o.push(5),
        RS::ZeroSize => o.push(6),
        RS::Option(inner) => {
            o.push(7);
            enc(inner, ver, o)
        }
        RS::Array(n, inner) => {
            o.push(8);
            w_u64(o, *n);
            enc(inner, ver, o)
        }
        RS::Custom(s) => {
            o.push(9);
            w_str(o, s)
        }
        RS::Boxed(inner) => {
            o.push(10);
            enc(inner, ver, o)
        }
        RS::FnClosure(m, t) => {
            o.push(11);
            o.push(*m as u8);
            w_trait(o, t, ver)
        }
        RS::Slice(inner) => {
            o.push(12);
            enc(inner, ver, o)
        }
        RS::Str => o.push(13),
        RS::Reference(inner) => {
            o.push(14);
            enc(inner, ver, o)
        }
        RS::Trait(m, t) => {
            o.push(15);
            o.push(*m as u8);
            w_trait(o, t, ver)
        }
        RS::Recursion(d) => {
            o.push(16);
            w_u64(o, *d)
        }
        RS::StdIoError => o.push(17),
        RS::Future(t, send, sync, unpin) => {
            o.push(18);
            o.push((*send as u8) | ((*sync as u8) << 1) | ((*unpin as u8) << 2));
            w_trait(o, t, ver)
        }
        RS::UninitSlice => o.push(19),
        RS::UtcTimestamp => o.push(20),
    }
}

struct D<'a> {
    b: &'a [u8],
    pos: usize,
    ver: u16,
    depth: usize,
}
impl D<'_> {
    fn u8(&mut self) -> Result<u8, String> {
        if self.pos >= self.b.len() {
            return Err("eof".into());
        }
        self.pos += 1;
        Ok(self.b[self.pos - 1])
    }
    fn u64(&mut self) -> Result<u64, String> {
        if self.b.len() - self.pos < 8 {
            return Err("eof".into());
        }
        let v = u64::from_le_bytes(self.b[self.pos..self.pos + 8].try_into().unwrap());
        self.pos += 8;
        Ok(v)
    }
    fn count(&mut self) -> Result<u64, String> {
        let n = self.u64()?;
        if n > (self.b.len() - self.pos) as u64 {
            return Err("count exceeds input".into());
        }
        Ok(n)
    }
    fn str(&mut self) -> Result<String, String> {
        let n = self.count()? as usize;
        let s = String::from_utf8(self.b[self.pos..self.pos + n].to_vec()).map_err(|_| "utf8".to_string())?;
        self.pos += n;
        Ok(s)
    }
    fn opt(&mut self) -> Result<Option<u64>, String> {
        Ok(match self.u8()? {
            1 => Some(self.u64()?),
            _ => None,
        })
    }
    fn fields(&mut self, n: u64) -> Result<Vec<RField>, String> {
        let mut out = vec![];
        for _ in 0..n {
            let name = self.str()?;
            let value = self.schema()?;
            let offset = if self.ver > 0 { self.opt()? } else { None };
            out.push(RField { name, value, offset });
        }
        Ok(out)
    }
    fn tr(&mut self) -> Result<RTrait, String> {
        let full = self.str()?;
        let mut parts = full.split('+');
        let name = parts.next().unwrap().to_string();
        let mut sync = false;
        let mut send = false;
        for p in parts {
            match p {
                "Sync" => sync = true,
                "Send" => send = true,
                _ => return Err(format!("unknown trait suffix {}", p)),
            }
        }
        let n = self.count()?;
        let mut methods = vec![];
        for _ in 0..n {
            let name = self.str()?;
            let ret = self.schema()?;
            let (receiver, async_heuristic) = if self.ver >= 2 {
                let r = self.u8()?;
                if !(100..=102).contains(&r) {
                    return Err("receiver".into());
                }
                (r - 100, self.u8()? == 1)
            } else {
                (0, false)
            };
            let na = self.count()?;
            let mut args = vec![];
            for _ in 0..na {
                args.push(self.schema()?);
            }
            methods.push(RMethod {
                name,
                ret,
                receiver,
                async_heuristic,
                args,
            });
        }
        Ok(RTrait { name, methods, sync, send })
    }
    fn schema(&mut self) -> Result<RS, String> {
        self.depth += 1;
        if self.depth > 200 {
            return Err("too deep".into());
        }
        let r = self.schema_inner();
        self.depth -= 1;
        r
    }
    fn schema_inner(&mut self) -> Result<RS, String> {
        Ok(match self.u8()? {
            1 => {
                let name = self.str()?;
                let n = self.count()?;
                let (size, align) = if self.ver > 0 { (self.opt()?, self.opt()?) } else { (None, None) };
                let fields = self.fields(n)?;
                RS::Struct { name, size, align, fields }
            }
            2 => {
                let name = self.str()?;
                let n = self.count()?;
                let mut variants = vec![];
                for _ in 0..n {
                    let name = self.str()?;
                    let discr = self.u8()?;
                    let nf = self.count()?;
                    let fields = self.fields(nf)?;
                    variants.push(RVariant { name, discr, fields });
                }
                let (discr_size, explicit_repr, size, align) = if self.ver > 0 {
                    (self.u8()?, self.u8()? == 1, self.opt()?, self.opt()?)
                } else {
                    (1, false, None, None)
                };
                RS::Enum {
                    name,
                    variants,
                    discr_size,
                    explicit_repr,
                    size,
                    align,
                }
            }
            3 => match self.u8()? {
                9 => RS::PrimString(if self.ver > 0 {
                    let l = self.u8()?;
                    if l > 8 {
                        0
                    } else {
                        l
                    }
                } else {
                    0
                }),
                c if (1..=16).contains(&c) => RS::Prim(c),
                c => return Err(format!("primitive code {}", c)),
            },
            4 => {
                let inner = self.schema()?;
                let l = if self.ver > 0 {
                    let l = self.u8()?;
                    if l > 8 {
                        0
                    } else {
                        l
                    }
                } else {
                    0
                };
                RS::Vector(Box::new(inner), l)
            }
            5 => RS::Undefined,
            6 => RS::ZeroSize,
            7 => RS::Option(Box::new(self.schema()?)),
            8 => {
                let n = self.u64()?;
                RS::Array(n, Box::new(self.schema()?))
            }
            9 => RS::Custom(self.str()?),
            10 => RS::Boxed(Box::new(self.schema()?)),
            11 => {
                let m = self.u8()? == 1;
                RS::FnClosure(m, self.tr()?)
            }
            12 => RS::Slice(Box::new(self.schema()?)),
            13 => RS::Str,
            14 => RS::Reference(Box::new(self.schema()?)),
            15 => {
                let m = self.u8()? == 1;
                RS::Trait(m, self.tr()?)
            }
            16 => RS::Recursion(self.u64()?),
            17 => RS::StdIoError,
            18 => {
                let mask = self.u8()?;
                RS::Future(self.tr()?, mask & 1 != 0, mask & 2 != 0, mask & 4 != 0)
            }
            19 => RS::UninitSlice,
            20 => RS::UtcTimestamp,
            t => return Err(format!("schema tag {}", t)),
        })
    }
}

/// Decode one schema; returns the tree and the number of bytes used.
pub fn decode_schema(b: &[u8], ver: u16) -> Result<(RS, usize), String> {
    let mut d = D { b, pos: 0, ver, depth: 0 };
    let s = d.schema()?;
    Ok((s, d.pos))
}

/// the same tree with all memory-layout annotations removed (what format 0 can express)
pub fn strip_layout(s: &RS) -> RS {
    let sf = |fields: &[RField]| -> Vec<RField> {
        fields
            .iter()
            .map(|f| RField {
                name: f.name.clone(),
                value: strip_layout(&f.value),
                offset: None,
            })
            .collect()
    };
    let st = |t: &RTrait| RTrait {
        name: t.name.clone(),
        sync: t.sync,
        send: t.send,
        methods: t
            .methods
            .iter()
            .map(|m| RMethod {
                name: m.name.clone(),
                ret: strip_layout(&m.ret),
                receiver: 0,
                async_heuristic: false,
                args: m.args.iter().map(strip_layout).collect(),
            })
            .collect(),
    };
    match s {
        RS::Struct { name, fields, .. } => RS::Struct {
            name: name.clone(),
            size: None,
            align: None,
            fields: sf(fields),
        },
        RS::Enum { name, variants, .. } => RS::Enum {
            name: name.clone(),
            variants: variants
                .iter()
                .map(|v| RVariant {
                    name: v.name.clone(),
                    discr: v.discr,
                    fields: sf(&v.fields),
                })
                .collect(),
            discr_size: 1,
            explicit_repr: false,
            size: None,
            align: None,
        },
        RS::PrimString(_) => RS::PrimString(0),
        RS::Vector(i, _) => RS::Vector(Box::new(strip_layout(i)), 0),
        RS::Array(n, i) => RS::Array(*n, Box::new(strip_layout(i))),
        RS::Option(i) => RS::Option(Box::new(strip_layout(i))),
        RS::Boxed(i) => RS::Boxed(Box::new(strip_layout(i))),
        RS::Slice(i) => RS::Slice(Box::new(strip_layout(i))),
        RS::Reference(i) => RS::Reference(Box::new(strip_layout(i))),
        RS::Trait(m, t) => RS::Trait(*m, st(t)),
        RS::FnClosure(m, t) => RS::FnClosure(*m, st(t)),
        RS::Future(t, a, b, c) => RS::Future(st(t), *a, *b, *c),
        other => other.clone(),
    }
}
