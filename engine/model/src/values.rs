//! Deterministic boundary-value enumeration for every type description.
use crate::ty::*;
use crate::wire::field_default;

pub fn prim_values(p: Prim) -> Vec<Val> {
    fn u(bits: u32) -> Vec<Val> {
        let max = if bits == 128 { u128::MAX } else { (1u128 << bits) - 1 };
        // byte-distinct pattern 0x0102..: detects byte order / width mistakes
        let mut pat = 0u128;
        for i in 0..(bits / 8) {
            pat = (pat << 8) | (i as u128 + 1);
        }
        let mut v = vec![Val::U(0), Val::U(1), Val::U(pat), Val::U(max)];
        if bits > 8 {
            v.push(Val::U(max >> 1));
            v.push(Val::U(0x80));
        }
        v
    }
    fn i(bits: u32) -> Vec<Val> {
        let max = if bits == 128 { i128::MAX } else { (1i128 << (bits - 1)) - 1 };
        let min = -max - 1;
        let mut pat = 0i128;
        for k in 0..(bits / 8) {
            pat = (pat << 8) | (k as i128 + 1);
        }
        vec![Val::I(0), Val::I(1), Val::I(-1), Val::I(pat), Val::I(max), Val::I(min)]
    }
    match p {
        Prim::U8 => u(8),
        Prim::U16 => u(16),
        Prim::U32 => u(32),
        Prim::U64 | Prim::Usize => u(64),
        Prim::U128 => u(128),
        Prim::I8 => i(8),
        Prim::I16 => i(16),
        Prim::I32 => i(32),
        Prim::I64 | Prim::Isize => i(64),
        Prim::I128 => i(128),
        Prim::F32 => vec![
            Val::F32(0),
            Val::F32(0x8000_0000),
            Val::F32(1.5f32.to_bits()),
            Val::F32(f32::INFINITY.to_bits()),
            Val::F32(0x7fc0_1234), // NaN with payload
            Val::F32(1),           // subnormal
        ],
        Prim::F64 => vec![
            Val::F64(0),
            Val::F64(0x8000_0000_0000_0000),
            Val::F64(1.5f64.to_bits()),
            Val::F64(f64::NEG_INFINITY.to_bits()),
            Val::F64(0x7ff8_0000_dead_beef),
            Val::F64(1),
        ],
        Prim::Bool => vec![Val::Bool(false), Val::Bool(true)],
        Prim::Char => vec![Val::Char(0), Val::Char('a' as u32), Val::Char(0xD7FF), Val::Char(0xE000), Val::Char(0x10FFFF)],
        Prim::String => vec![
            Val::Str(String::new()),
            Val::Str("a".into()),
            Val::Str("héllo ✓ 𝄞".into()),
            Val::Str("x".repeat(63)),
            Val::Str("y".repeat(64)),
            Val::Str("z".repeat(65)),
        ],
        Prim::Unit => vec![Val::Unit],
    }
}

fn product(lists: &[Vec<Val>], cap: usize) -> Vec<Vec<Val>> {
    if lists.is_empty() {
        return vec![vec![]];
    }
    if lists.iter().any(|l| l.is_empty()) {
        return vec![];
    }
    let total: usize = lists.iter().map(|l| l.len()).fold(1usize, |a, b| a.saturating_mul(b));
    let mut out: Vec<Vec<Val>> = vec![];
    if total <= cap {
        let mut idx = vec![0usize; lists.len()];
        loop {
            out.push(idx.iter().zip(lists).map(|(i, l)| l[*i].clone()).collect());
            let mut k = lists.len();
            loop {
                if k == 0 {
                    return out;
                }
                k -= 1;
                idx[k] += 1;
                if idx[k] < lists[k].len() {
                    break;
                }
                idx[k] = 0;
            }
        }
    }
    // too many: base + all single-position variations + diagonals (every value of every
    // position occurs, every position varies against a non-base neighbourhood)
    let base: Vec<Val> = lists.iter().map(|l| l[0].clone()).collect();
    out.push(base.clone());
    for (p, l) in lists.iter().enumerate() {
        for v in l.iter().skip(1) {
            let mut x = base.clone();
            x[p] = v.clone();
            out.push(x);
        }
    }
    let maxlen = lists.iter().map(|l| l.len()).max().unwrap();
    for k in 1..maxlen {
        out.push(lists.iter().enumerate().map(|(p, l)| l[(k + p) % l.len()].clone()).collect());
        out.push(lists.iter().map(|l| l[k % l.len()].clone()).collect());
    }
    out.sort();
    out.dedup();
    if out.len() > cap.max(8) * 2 {
        // keep evenly spread subset, always including the base
        let step = out.len() as f64 / (cap.max(8) * 2) as f64;
        let mut keep = vec![];
        let mut x = 0f64;
        while (x as usize) < out.len() {
            keep.push(out[x as usize].clone());
            x += step;
        }
        if !keep.contains(&base) {
            keep.push(base);
        }
        return keep;
    }
    out
}

fn field_values(f: &Field, cap: usize) -> Vec<Val> {
    if f.removed != RemovedKind::No {
        return vec![Val::Unit];
    }
    if f.ignore {
        return vec![field_default(f)];
    }
    values(&f.ty, cap)
}

/// Values of `ty` (as held in memory by the current definition). `cap` bounds products.
pub fn values(ty: &Ty, cap: usize) -> Vec<Val> {
    let sub = (cap / 4).max(4);
    match ty {
        Ty::Prim(p) => prim_values(*p),
        Ty::Opt(t) => {
            let mut v = vec![Val::None];
            v.extend(values(t, sub).into_iter().map(Val::some));
            v
        }
        Ty::Res(t, e) => {
            let mut v: Vec<Val> = values(t, sub).into_iter().map(|x| Val::Ok(Box::new(x))).collect();
            v.extend(values(e, sub).into_iter().map(|x| Val::Err(Box::new(x))));
            v
        }
        Ty::Wrap(_, t) => values(t, cap),
        Ty::Lib(l) if l.key.starts_with("BitVec") => {
            // bit lengths around the 32 bit storage words, with an irregular pattern
            [0usize, 1, 7, 8, 9, 31, 32, 33, 63, 64, 65, 100]
                .iter()
                .map(|n| Val::Seq((0..*n).map(|i| Val::Bool((i * 7 + i / 3) % 3 != 1)).collect()))
                .collect()
        }
        Ty::Lib(l) if l.key.starts_with("BitSet") => vec![
            Val::Seq(vec![]),
            Val::Seq(vec![Val::U(0)]),
            Val::Seq(vec![Val::U(31)]),
            Val::Seq(vec![Val::U(32)]),
            Val::Seq(vec![Val::U(0), Val::U(1), Val::U(33), Val::U(64), Val::U(100)]),
            Val::Seq((0..70).filter(|i| i % 3 != 0).map(|i| Val::U(i as u128)).collect()),
        ],
        Ty::Lib(l) if l.key == "IoError" => ["NotFound", "PermissionDenied", "UnexpectedEof", "InvalidData", "Other", "TimedOut", "BrokenPipe"]
            .iter()
            .flat_map(|k| ["", "disk on fire ✓", &"m".repeat(64)].map(|m| Val::Tuple(vec![Val::Str(k.to_string()), Val::Str(m.to_string())])))
            .collect(),
        Ty::Lib(l) => {
            let mut v: Vec<Val> = values(&l.wire, cap).into_iter().filter(|v| lib_accepts(&l.key, v)).collect();
            match l.key.as_str() {
                "Canary1" => v.push(Val::U(0x47566843)),
                // capacity boundary of ArrayString<8>: one below, exactly full (ASCII and multi-byte)
                "ArrayString" => v.extend([Val::Str("1234567".into()), Val::Str("12345678".into()), Val::Str("aé✓12".into())]),
                "Duration" => v.extend([Val::U(999_999_999), Val::U(1_000_000_000), Val::U(u64::MAX as u128 * 1_000_000_000 + 999_999_999)]),
                "SystemTime" => v.extend([Val::U(1_700_000_000_123_456_789), Val::U((1u128 << 127) | 5_000_000_001), Val::U((1u128 << 127) | 1)]),
                _ => {}
            }
            v
        }
        Ty::Seq(k, t) => {
            let mut ev = values(t, sub);
            if k.is_set() || *k == SeqKind::BinaryHeap {
                ev.sort();
                ev.dedup();
            }
            let maxn = match k {
                SeqKind::ArrayVec(n) => *n,
                _ => usize::MAX,
            };
            let mut out = vec![Val::Seq(vec![])];
            if ev.is_empty() {
                return out;
            }
            // every element value alone
            if maxn >= 1 {
                for e in &ev {
                    out.push(Val::Seq(vec![e.clone()]));
                }
            }
            let mut lens = vec![2usize, 3, 5];
            if let SeqKind::ArrayVec(c) | SeqKind::SmallVec(c) = k {
                // capacity boundary: exactly full, one below, (SmallVec: one above = spilled)
                lens.extend([*c, c.saturating_sub(1), c + 1]);
                lens.sort();
                lens.dedup();
            }
            for n in lens {
                if n == 0 || n > maxn || (k.is_set() && n > ev.len()) {
                    continue;
                }
                for start in 0..ev.len().min(3) {
                    let items: Vec<Val> = (0..n).map(|i| ev[(start + i) % ev.len()].clone()).collect();
                    out.push(Val::Seq(items));
                }
            }
            let mut out: Vec<Val> = out.into_iter().map(|v| canon(ty, &v)).collect();
            out.dedup();
            truncate_spread(out, cap)
        }
        Ty::Map(_, kt, vt) => {
            let mut kv = values(kt, sub);
            kv.sort();
            kv.dedup();
            let vv = values(vt, sub);
            let mut out = vec![Val::Map(vec![])];
            if kv.is_empty() || vv.is_empty() {
                return out;
            }
            for (i, v) in vv.iter().enumerate() {
                out.push(Val::Map(vec![(kv[i % kv.len()].clone(), v.clone())]));
            }
            for n in [2usize, 3] {
                if n > kv.len() {
                    continue;
                }
                let items: Vec<(Val, Val)> = (0..n).map(|i| (kv[i].clone(), vv[(i + 1) % vv.len()].clone())).collect();
                out.push(Val::Map(items));
            }
            let out: Vec<Val> = out.into_iter().map(|v| canon(ty, &v)).collect();
            truncate_spread(out, cap)
        }
        Ty::Array(t, n) => {
            let ev = values(t, sub);
            if *n == 0 || ev.is_empty() {
                return vec![Val::Seq(vec![])];
            }
            let mut out = vec![];
            for start in 0..ev.len() {
                out.push(Val::Seq((0..*n).map(|i| ev[(start + i) % ev.len()].clone()).collect()));
            }
            truncate_spread(out, cap)
        }
        Ty::Tuple(ts) => {
            let lists: Vec<Vec<Val>> = ts.iter().map(|t| values(t, sub)).collect();
            product(&lists, cap).into_iter().map(Val::Tuple).collect()
        }
        Ty::Def(d) => match &d.kind {
            DefKind::Struct(s) => {
                let lists: Vec<Vec<Val>> = s.fields.iter().map(|f| field_values(f, sub)).collect();
                product(&lists, cap).into_iter().map(Val::Struct).collect()
            }
            DefKind::Enum(e) => {
                let mut out = vec![];
                let per = (cap / e.variants.len().max(1)).max(6);
                for (i, var) in e.variants.iter().enumerate() {
                    let lists: Vec<Vec<Val>> = var.fields.iter().map(|f| field_values(f, sub)).collect();
                    for f in product(&lists, per) {
                        out.push(Val::Variant(i as u32, f));
                    }
                }
                out
            }
        },
    }
}

fn truncate_spread(v: Vec<Val>, cap: usize) -> Vec<Val> {
    if v.len() <= cap {
        return v;
    }
    let step = v.len() as f64 / cap as f64;
    let mut out = vec![];
    let mut x = 0f64;
    while (x as usize) < v.len() {
        out.push(v[x as usize].clone());
        x += step;
    }
    out
}

/// values of `ty` that can be written at version `ver` (no variant newer than `ver`)
pub fn representable_at(ty: &Ty, v: &Val, ver: u32) -> bool {
    crate::wire::encode(ty, v, ver).is_ok()
}

/// value-domain restrictions of library types (the Rust type cannot hold every value of its
/// wire-equivalent type)
pub fn lib_accepts(key: &str, v: &Val) -> bool {
    match (key, v) {
        ("ArrayString", Val::Str(s)) => s.len() <= 8,
        // Duration holds u64 seconds; SystemTime is platform limited (i64 seconds)
        ("Duration", Val::U(x)) => *x / 1_000_000_000 <= u64::MAX as u128,
        ("SystemTime", Val::U(x)) => (*x & ((1u128 << 127) - 1)) < (1u128 << 90) && *x != (1u128 << 127),
        ("Canary1", Val::U(x)) => *x == 0x47566843,
        ("DropProbe", Val::U(x)) => *x != 0xFF,
        _ => true,
    }
}
