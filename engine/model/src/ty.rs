//! Type descriptions (`Ty`, `Def`) and the value tree (`Val`) of the reference model.
//! Nothing in this crate depends on savefile.
use std::sync::Arc;

#[derive(Clone, Copy, Debug, PartialEq, Eq, Hash, PartialOrd, Ord)]
pub enum Prim {
    U8,
    I8,
    U16,
    I16,
    U32,
    I32,
    U64,
    I64,
    U128,
    I128,
    F32,
    F64,
    Bool,
    Char,
    Usize,
    Isize,
    String,
    Unit,
}

impl Prim {
    pub fn rust(self) -> &'static str {
        match self {
            Prim::U8 => "u8",
            Prim::I8 => "i8",
            Prim::U16 => "u16",
            Prim::I16 => "i16",
            Prim::U32 => "u32",
            Prim::I32 => "i32",
            Prim::U64 => "u64",
            Prim::I64 => "i64",
            Prim::U128 => "u128",
            Prim::I128 => "i128",
            Prim::F32 => "f32",
            Prim::F64 => "f64",
            Prim::Bool => "bool",
            Prim::Char => "char",
            Prim::Usize => "usize",
            Prim::Isize => "isize",
            Prim::String => "String",
            Prim::Unit => "()",
        }
    }
    /// wire width in bytes (None: variable)
    pub fn wire_size(self) -> Option<usize> {
        Some(match self {
            Prim::U8 | Prim::I8 | Prim::Bool => 1,
            Prim::U16 | Prim::I16 => 2,
            Prim::U32 | Prim::I32 | Prim::F32 | Prim::Char => 4,
            Prim::U64 | Prim::I64 | Prim::F64 | Prim::Usize | Prim::Isize => 8,
            Prim::U128 | Prim::I128 => 16,
            Prim::Unit => 0,
            Prim::String => return None,
        })
    }
    pub fn signed(self) -> bool {
        matches!(
            self,
            Prim::I8 | Prim::I16 | Prim::I32 | Prim::I64 | Prim::I128 | Prim::Isize
        )
    }
    pub fn is_int(self) -> bool {
        !matches!(
            self,
            Prim::F32 | Prim::F64 | Prim::Bool | Prim::Char | Prim::String | Prim::Unit
        )
    }
}

#[derive(Clone, Copy, Debug, PartialEq, Eq, Hash, PartialOrd, Ord)]
pub enum SeqKind {
    Vec,
    VecDeque,
    BoxSlice,
    ArcSlice,
    HashSet,
    BTreeSet,
    BinaryHeap,
    ArrayVec(usize),
    SmallVec(usize),
    IndexSet,
}
impl SeqKind {
    /// order of elements on the wire is not determined by the value
    pub fn unordered(self) -> bool {
        matches!(self, SeqKind::HashSet | SeqKind::BinaryHeap)
    }
    /// value semantics is a set
    pub fn is_set(self) -> bool {
        matches!(self, SeqKind::HashSet | SeqKind::BTreeSet | SeqKind::IndexSet)
    }
}

#[derive(Clone, Copy, Debug, PartialEq, Eq, Hash, PartialOrd, Ord)]
pub enum MapKind {
    HashMap,
    BTreeMap,
    IndexMap,
}

#[derive(Clone, Copy, Debug, PartialEq, Eq, Hash, PartialOrd, Ord)]
pub enum WrapKind {
    Box,
    Rc,
    Arc,
    Cell,
    RefCell,
    Mutex,
    /// parking_lot::RwLock (std's RwLock is not supported by savefile)
    RwLock,
    /// parking_lot::Mutex
    PlMutex,
    Cow,
}

#[derive(Clone, Debug, PartialEq, Eq, Hash)]
pub enum Ty {
    Prim(Prim),
    Opt(Box<Ty>),
    Res(Box<Ty>, Box<Ty>),
    Wrap(WrapKind, Box<Ty>),
    Seq(SeqKind, Box<Ty>),
    Map(MapKind, Box<Ty>, Box<Ty>),
    Array(Box<Ty>, usize),
    Tuple(Vec<Ty>),
    Def(Arc<Def>),
    /// A hand-implemented library type whose wire format equals that of `wire` (e.g. Duration ==
    /// (u64,u32)); the glue crate converts between the Rust value and the `Val` of `wire`.
    Lib(LibTy),
}

#[derive(Clone, Debug, PartialEq, Eq, Hash)]
pub struct LibTy {
    /// key used by glue/known-findings, e.g. "Duration"
    pub key: String,
    /// Rust type expression
    pub rust: String,
    pub wire: Box<Ty>,
    /// the wire format is NOT modelled: `wire` only gives the shape of the `Val`s the glue
    /// produces; checks that need reference bytes skip the type, round trips / fault
    /// enumeration / schema-driven parsing (consumption only) still apply
    pub opaque: bool,
}

#[derive(Clone, Copy, Debug, PartialEq, Eq, Hash)]
pub enum Style {
    Named,
    Tuple,
    Unit,
}

#[derive(Clone, Copy, Debug, PartialEq, Eq, Hash)]
pub enum RemovedKind {
    No,
    Removed,
    /// AbiRemoved<T> with the default value constructor
    Abi,
    /// AbiRemoved<T, Ctor> with a generated value constructor yielding `default`'s value
    AbiCtor,
}

#[derive(Clone, Debug, PartialEq, Eq, Hash)]
pub enum DefaultKind {
    /// Default::default()
    Trait,
    /// #[savefile_default_val="lit"]
    Lit(String, Val),
    /// #[savefile_default_fn="..."] returning the value (also used for AbiCtor)
    Fn(Val),
}

#[derive(Clone, Copy, Debug, PartialEq, Eq, Hash)]
pub enum Conv {
    /// `<NewTy>::from(old)` for a widening integer conversion
    From,
    /// generated fn: u32 -> String via to_string
    ToStringFn,
}

#[derive(Clone, Debug, PartialEq, Eq, Hash)]
pub struct VersionsAs {
    pub from: u32,
    pub to: u32,
    pub ty: Ty,
    pub conv: Conv,
}

#[derive(Clone, Debug, PartialEq, Eq, Hash)]
pub struct Field {
    pub name: String,
    /// For removed fields: the type that used to be stored.
    pub ty: Ty,
    pub from: u32,
    /// inclusive; u32::MAX = open
    pub to: u32,
    pub removed: RemovedKind,
    pub ignore: bool,
    pub default: DefaultKind,
    pub versions_as: Vec<VersionsAs>,
    /// emit this field's type as generic parameter #n of the definition
    pub generic: Option<usize>,
}

impl Field {
    pub fn plain(name: &str, ty: Ty) -> Field {
        Field {
            name: name.to_string(),
            ty,
            from: 0,
            to: u32::MAX,
            removed: RemovedKind::No,
            ignore: false,
            default: DefaultKind::Trait,
            versions_as: vec![],
            generic: None,
        }
    }
    pub fn present_at(&self, v: u32) -> bool {
        !self.ignore && v >= self.from && v <= self.to
    }
    pub fn is_versioned(&self) -> bool {
        self.from != 0 || self.to != u32::MAX
    }
}

#[derive(Clone, Copy, Debug, PartialEq, Eq, Hash)]
pub enum IntRepr {
    U8,
    I8,
    U16,
    I16,
    U32,
    I32,
}
impl IntRepr {
    pub fn rust(self) -> &'static str {
        match self {
            IntRepr::U8 => "u8",
            IntRepr::I8 => "i8",
            IntRepr::U16 => "u16",
            IntRepr::I16 => "i16",
            IntRepr::U32 => "u32",
            IntRepr::I32 => "i32",
        }
    }
    pub fn width(self) -> usize {
        match self {
            IntRepr::U8 | IntRepr::I8 => 1,
            IntRepr::U16 | IntRepr::I16 => 2,
            IntRepr::U32 | IntRepr::I32 => 4,
        }
    }
}

#[derive(Clone, Debug, PartialEq, Eq, Hash)]
pub struct Variant {
    pub name: String,
    pub discr: Option<i64>,
    pub style: Style,
    pub fields: Vec<Field>,
    /// variant exists from this version on (savefile_versions="N..")
    pub from: u32,
}

#[derive(Clone, Debug, PartialEq, Eq, Hash)]
pub struct EnumDef {
    pub repr_int: Option<IntRepr>,
    pub repr_c: bool,
    pub variants: Vec<Variant>,
}
impl EnumDef {
    /// width of the variant index on the wire
    pub fn wire_width(&self) -> usize {
        if let Some(r) = self.repr_int {
            r.width()
        } else if self.variants.len() <= 256 {
            1
        } else if self.variants.len() <= 65536 {
            2
        } else {
            4
        }
    }
    /// actual in-memory discriminant value of variant i (Rust rules: explicit, else previous+1)
    pub fn mem_discr(&self, i: usize) -> i64 {
        let mut cur = -1i64;
        for (k, v) in self.variants.iter().enumerate() {
            cur = v.discr.unwrap_or(cur + 1);
            if k == i {
                return cur;
            }
        }
        panic!("variant index out of range")
    }
    pub fn has_fields(&self) -> bool {
        self.variants.iter().any(|v| !v.fields.is_empty())
    }
    pub fn discr_differs_from_index(&self) -> bool {
        (0..self.variants.len()).any(|i| self.mem_discr(i) != i as i64)
    }
}

#[derive(Clone, Debug, PartialEq, Eq, Hash)]
pub struct StructDef {
    pub repr_c: bool,
    /// `#[repr(align(N))]` (over-alignment: the struct may be larger than its fields)
    pub align: Option<u32>,
    pub style: Style,
    pub fields: Vec<Field>,
}

#[derive(Clone, Debug, PartialEq, Eq, Hash)]
pub enum DefKind {
    Struct(StructDef),
    Enum(EnumDef),
}

#[derive(Clone, Debug, PartialEq, Eq, Hash)]
pub struct Def {
    pub name: String,
    pub kind: DefKind,
    /// emit `#[derive(Default)]` (needed when used as an added field / AbiRemoved payload)
    pub derive_default: bool,
    /// number of generic parameters of the emitted definition (fields say which one they use)
    pub generics: usize,
}

impl Def {
    pub fn max_version(&self) -> u32 {
        let mut m = 0;
        let mut upd = |f: &Field| {
            if f.from != 0 {
                m = m.max(f.from);
            }
            if f.to != u32::MAX {
                m = m.max(f.to + 1);
            }
            for va in &f.versions_as {
                m = m.max(va.to + 1);
            }
            m = m.max(f.ty.max_version());
        };
        match &self.kind {
            DefKind::Struct(s) => s.fields.iter().for_each(&mut upd),
            DefKind::Enum(e) => {
                for v in &e.variants {
                    v.fields.iter().for_each(&mut upd);
                }
                for v in &e.variants {
                    m = m.max(v.from);
                }
            }
        }
        m
    }
}

impl Ty {
    pub fn prim(p: Prim) -> Ty {
        Ty::Prim(p)
    }
    /// does the type contain a library type whose wire format is not modelled?
    pub fn has_opaque(&self) -> bool {
        self.feature_string().contains("opaque_lib")
    }
    pub fn max_version(&self) -> u32 {
        match self {
            Ty::Prim(_) => 0,
            Ty::Opt(a) | Ty::Wrap(_, a) | Ty::Seq(_, a) | Ty::Array(a, _) => a.max_version(),
            Ty::Res(a, b) | Ty::Map(_, a, b) => a.max_version().max(b.max_version()),
            Ty::Tuple(v) => v.iter().map(|t| t.max_version()).max().unwrap_or(0),
            Ty::Def(d) => d.max_version(),
            Ty::Lib(l) => l.wire.max_version(),
        }
    }
    /// all named definitions reachable, dependencies first, deduplicated by name
    pub fn collect_defs(&self, out: &mut Vec<Arc<Def>>) {
        match self {
            Ty::Prim(_) => {}
            Ty::Opt(a) | Ty::Wrap(_, a) | Ty::Seq(_, a) | Ty::Array(a, _) => a.collect_defs(out),
            Ty::Res(a, b) | Ty::Map(_, a, b) => {
                a.collect_defs(out);
                b.collect_defs(out)
            }
            Ty::Tuple(v) => v.iter().for_each(|t| t.collect_defs(out)),
            Ty::Lib(l) => l.wire.collect_defs_lib(out),
            Ty::Def(d) => {
                let fields: Vec<&Field> = match &d.kind {
                    DefKind::Struct(s) => s.fields.iter().collect(),
                    DefKind::Enum(e) => e.variants.iter().flat_map(|v| v.fields.iter()).collect(),
                };
                for f in fields {
                    f.ty.collect_defs(out);
                    for va in &f.versions_as {
                        va.ty.collect_defs(out);
                    }
                }
                if !out.iter().any(|x| x.name == d.name) {
                    out.push(d.clone());
                }
            }
        }
    }
    fn collect_defs_lib(&self, _out: &mut Vec<Arc<Def>>) {
        // wire-equivalent descriptions of library types are never emitted as Rust
    }

    /// Features used by known-findings predicates and by family statistics.
    pub fn features(&self, out: &mut std::collections::BTreeSet<String>) {
        match self {
            Ty::Prim(p) => {
                out.insert(format!("prim_{}", p.rust().replace("()", "unit")));
            }
            Ty::Opt(a) => {
                out.insert("option".into());
                a.features(out)
            }
            Ty::Res(a, b) => {
                out.insert("result".into());
                a.features(out);
                b.features(out)
            }
            Ty::Wrap(k, a) => {
                out.insert(format!("wrap_{:?}", k));
                a.features(out)
            }
            Ty::Seq(k, a) => {
                out.insert(format!("seq_{:?}", k).split('(').next().unwrap().to_string());
                a.features(out)
            }
            Ty::Map(k, a, b) => {
                out.insert(format!("map_{:?}", k));
                out.insert("map".into());
                a.features(out);
                b.features(out)
            }
            Ty::Array(a, _) => {
                out.insert("array".into());
                a.features(out)
            }
            Ty::Tuple(v) => {
                out.insert("tuple".into());
                v.iter().for_each(|t| t.features(out))
            }
            Ty::Lib(l) => {
                out.insert(format!("lib_{}", l.key));
                if l.opaque {
                    out.insert("opaque_lib".into());
                }
            }
            Ty::Def(d) => match &d.kind {
                DefKind::Struct(s) => {
                    out.insert("struct".into());
                    for f in &s.fields {
                        f.ty.features(out);
                        if f.is_versioned() {
                            out.insert("versioned_field".into());
                        }
                    }
                }
                DefKind::Enum(e) => {
                    out.insert("enum".into());
                    if e.repr_int.is_some() && e.discr_differs_from_index() {
                        out.insert("int_repr_enum_explicit_discriminant_differs_from_index".into());
                    }
                    if e.repr_int.is_some() && e.has_fields() && e.variants.iter().any(|v| v.fields.is_empty()) {
                        out.insert("int_repr_enum_unit_variant_with_payload_siblings".into());
                    }
                    if e.variants.len() > 256 {
                        out.insert("enum_over_256_variants".into());
                    }
                    for v in &e.variants {
                        for f in &v.fields {
                            f.ty.features(out);
                        }
                    }
                }
            },
        }
    }
    pub fn feature_string(&self) -> String {
        let mut s = std::collections::BTreeSet::new();
        self.features(&mut s);
        s.into_iter().collect::<Vec<_>>().join(",")
    }

    /// Rust type expression
    pub fn rust(&self) -> String {
        match self {
            Ty::Prim(p) => p.rust().to_string(),
            Ty::Opt(a) => format!("Option<{}>", a.rust()),
            Ty::Res(a, b) => format!("Result<{}, {}>", a.rust(), b.rust()),
            Ty::Wrap(k, a) => match k {
                WrapKind::Box => format!("Box<{}>", a.rust()),
                WrapKind::Rc => format!("std::rc::Rc<{}>", a.rust()),
                WrapKind::Arc => format!("std::sync::Arc<{}>", a.rust()),
                WrapKind::Cell => format!("std::cell::Cell<{}>", a.rust()),
                WrapKind::RefCell => format!("std::cell::RefCell<{}>", a.rust()),
                WrapKind::Mutex => format!("std::sync::Mutex<{}>", a.rust()),
                WrapKind::RwLock => format!("vglue::parking_lot::RwLock<{}>", a.rust()),
                WrapKind::PlMutex => format!("vglue::parking_lot::Mutex<{}>", a.rust()),
                WrapKind::Cow => format!("std::borrow::Cow<'static, {}>", a.rust()),
            },
            Ty::Seq(k, a) => match k {
                SeqKind::Vec => format!("Vec<{}>", a.rust()),
                SeqKind::VecDeque => format!("std::collections::VecDeque<{}>", a.rust()),
                SeqKind::BoxSlice => format!("Box<[{}]>", a.rust()),
                SeqKind::ArcSlice => format!("std::sync::Arc<[{}]>", a.rust()),
                SeqKind::HashSet => format!("std::collections::HashSet<{}>", a.rust()),
                SeqKind::BTreeSet => format!("std::collections::BTreeSet<{}>", a.rust()),
                SeqKind::BinaryHeap => format!("std::collections::BinaryHeap<{}>", a.rust()),
                SeqKind::ArrayVec(n) => format!("vglue::arrayvec::ArrayVec<{}, {}>", a.rust(), n),
                SeqKind::SmallVec(n) => format!("vglue::smallvec::SmallVec<[{}; {}]>", a.rust(), n),
                SeqKind::IndexSet => format!("vglue::indexmap::IndexSet<{}>", a.rust()),
            },
            Ty::Map(k, a, b) => match k {
                MapKind::HashMap => format!("std::collections::HashMap<{}, {}>", a.rust(), b.rust()),
                MapKind::BTreeMap => format!("std::collections::BTreeMap<{}, {}>", a.rust(), b.rust()),
                MapKind::IndexMap => format!("vglue::indexmap::IndexMap<{}, {}>", a.rust(), b.rust()),
            },
            Ty::Array(a, n) => format!("[{}; {}]", a.rust(), n),
            Ty::Tuple(v) => {
                if v.len() == 1 {
                    format!("({},)", v[0].rust())
                } else {
                    format!("({})", v.iter().map(|t| t.rust()).collect::<Vec<_>>().join(", "))
                }
            }
            Ty::Def(d) => {
                if d.generics == 0 {
                    d.name.clone()
                } else {
                    let mut params = vec![String::new(); d.generics];
                    let fields: Vec<&Field> = match &d.kind {
                        DefKind::Struct(s) => s.fields.iter().collect(),
                        DefKind::Enum(e) => e.variants.iter().flat_map(|v| v.fields.iter()).collect(),
                    };
                    for f in fields {
                        if let Some(g) = f.generic {
                            params[g] = f.ty.rust();
                        }
                    }
                    format!("{}<{}>", d.name, params.join(", "))
                }
            }
            Ty::Lib(l) => l.rust.clone(),
        }
    }
    /// short, deterministic, human readable description (used in samples / replay files)
    pub fn describe(&self) -> String {
        match self {
            Ty::Def(d) => describe_def(d),
            Ty::Opt(a) => format!("Option<{}>", a.describe()),
            Ty::Res(a, b) => format!("Result<{},{}>", a.describe(), b.describe()),
            Ty::Seq(k, a) => format!("{:?}<{}>", k, a.describe()),
            Ty::Wrap(k, a) => format!("{:?}<{}>", k, a.describe()),
            Ty::Map(k, a, b) => format!("{:?}<{},{}>", k, a.describe(), b.describe()),
            Ty::Array(a, n) => format!("[{};{}]", a.describe(), n),
            Ty::Tuple(v) => format!("({})", v.iter().map(|t| t.describe()).collect::<Vec<_>>().join(",")),
            Ty::Prim(p) => p.rust().to_string(),
            Ty::Lib(l) => l.rust.clone(),
        }
    }
}

fn describe_field(f: &Field) -> String {
    let mut s = String::new();
    if f.ignore {
        s.push_str("#ignore ");
    }
    if f.is_versioned() {
        if f.to == u32::MAX {
            s.push_str(&format!("#v{}.. ", f.from));
        } else {
            s.push_str(&format!("#v{}..{} ", f.from, f.to));
        }
    }
    for va in &f.versions_as {
        s.push_str(&format!("#as{}..{}:{} ", va.from, va.to, va.ty.describe()));
    }
    match f.removed {
        RemovedKind::No => s.push_str(&f.ty.describe()),
        RemovedKind::Removed => s.push_str(&format!("Removed<{}>", f.ty.describe())),
        RemovedKind::Abi => s.push_str(&format!("AbiRemoved<{}>", f.ty.describe())),
        RemovedKind::AbiCtor => s.push_str(&format!("AbiRemoved<{},Ctor>", f.ty.describe())),
    }
    match &f.default {
        DefaultKind::Trait => {}
        DefaultKind::Lit(l, _) => s.push_str(&format!("=val({})", l)),
        DefaultKind::Fn(v) => s.push_str(&format!("=fn({:?})", v)),
    }
    s
}

pub fn describe_def(d: &Def) -> String {
    match &d.kind {
        DefKind::Struct(s) => format!(
            "{}{}struct {}{{{}}}",
            if s.repr_c { "repr(C) " } else { "" },
            s.align.map(|a| format!("align({}) ", a)).unwrap_or_default(),
            d.name,
            s.fields.iter().map(describe_field).collect::<Vec<_>>().join(", ")
        ),
        DefKind::Enum(e) => {
            let mut r = vec![];
            if e.repr_c {
                r.push("C".to_string());
            }
            if let Some(i) = e.repr_int {
                r.push(i.rust().to_string());
            }
            format!(
                "{}enum {}{{{}}}",
                if r.is_empty() {
                    String::new()
                } else {
                    format!("repr({}) ", r.join(","))
                },
                d.name,
                e.variants
                    .iter()
                    .map(|v| format!(
                        "{}{}({}){}",
                        if v.from > 0 { format!("#v{}.. ", v.from) } else { String::new() },
                        v.name,
                        v.fields.iter().map(describe_field).collect::<Vec<_>>().join(", "),
                        v.discr.map(|d| format!("={}", d)).unwrap_or_default()
                    ))
                    .collect::<Vec<_>>()
                    .join(" | ")
            )
        }
    }
}

/// The value tree. Floats are bit patterns; `Seq`s of unordered kinds and `Map`s are kept
/// canonically sorted by `canon`.
#[derive(Clone, Debug, PartialEq, Eq, Hash, PartialOrd, Ord)]
pub enum Val {
    U(u128),
    I(i128),
    F32(u32),
    F64(u64),
    Bool(bool),
    Char(u32),
    Str(String),
    Unit,
    None,
    Some(Box<Val>),
    Ok(Box<Val>),
    Err(Box<Val>),
    Seq(Vec<Val>),
    Map(Vec<(Val, Val)>),
    Tuple(Vec<Val>),
    /// one entry per declared field (removed / ZST fields hold `Unit`)
    Struct(Vec<Val>),
    Variant(u32, Vec<Val>),
}

impl Val {
    pub fn some(v: Val) -> Val {
        Val::Some(Box::new(v))
    }
    pub fn fields(&self) -> &[Val] {
        match self {
            Val::Struct(f) | Val::Tuple(f) | Val::Seq(f) => f,
            Val::Variant(_, f) => f,
            _ => panic!("Val::fields on {:?}", self),
        }
    }
    pub fn as_u(&self) -> u128 {
        match self {
            Val::U(x) => *x,
            _ => panic!("Val::as_u on {:?}", self),
        }
    }
    pub fn as_i(&self) -> i128 {
        match self {
            Val::I(x) => *x,
            _ => panic!("Val::as_i on {:?}", self),
        }
    }
    pub fn as_str(&self) -> &str {
        match self {
            Val::Str(x) => x,
            _ => panic!("Val::as_str on {:?}", self),
        }
    }
    pub fn short(&self) -> String {
        let s = format!("{:?}", self);
        if s.len() > 300 {
            format!("{}…(+{} chars)", &s[..s.char_indices().nth(300).map(|x| x.0).unwrap_or(s.len())], s.len() - 300)
        } else {
            s
        }
    }
}

/// Canonical form with respect to `ty`: unordered sequences and hash maps sorted, sets deduplicated.
pub fn canon(ty: &Ty, v: &Val) -> Val {
    match (ty, v) {
        (Ty::Opt(t), Val::Some(x)) => Val::some(canon(t, x)),
        (Ty::Res(t, _), Val::Ok(x)) => Val::Ok(Box::new(canon(t, x))),
        (Ty::Res(_, e), Val::Err(x)) => Val::Err(Box::new(canon(e, x))),
        (Ty::Wrap(_, t), x) => canon(t, x),
        (Ty::Lib(l), x) => canon(&l.wire, x),
        (Ty::Seq(k, t), Val::Seq(items)) => {
            let mut items: Vec<Val> = items.iter().map(|x| canon(t, x)).collect();
            if k.unordered() || *k == SeqKind::BTreeSet {
                items.sort();
            }
            if k.is_set() && *k != SeqKind::IndexSet {
                items.dedup();
            }
            Val::Seq(items)
        }
        (Ty::Map(k, kt, vt), Val::Map(items)) => {
            let mut items: Vec<(Val, Val)> = items.iter().map(|(a, b)| (canon(kt, a), canon(vt, b))).collect();
            if *k != MapKind::IndexMap {
                items.sort();
            }
            Val::Map(items)
        }
        (Ty::Array(t, _), Val::Seq(items)) => Val::Seq(items.iter().map(|x| canon(t, x)).collect()),
        (Ty::Tuple(ts), Val::Tuple(items)) => Val::Tuple(ts.iter().zip(items).map(|(t, x)| canon(t, x)).collect()),
        (Ty::Def(d), Val::Struct(items)) => match &d.kind {
            DefKind::Struct(s) => Val::Struct(s.fields.iter().zip(items).map(|(f, x)| canon_field(f, x)).collect()),
            _ => v.clone(),
        },
        (Ty::Def(d), Val::Variant(i, items)) => match &d.kind {
            DefKind::Enum(e) => Val::Variant(
                *i,
                e.variants[*i as usize].fields.iter().zip(items).map(|(f, x)| canon_field(f, x)).collect(),
            ),
            _ => v.clone(),
        },
        _ => v.clone(),
    }
}
fn canon_field(f: &Field, x: &Val) -> Val {
    if f.removed != RemovedKind::No {
        Val::Unit
    } else {
        canon(&f.ty, x)
    }
}
