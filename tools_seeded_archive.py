#!/usr/bin/env python3
"""tools_seeded_archive.py <id> <mutation dir> <confirmed: text> <check results: text> [<strengthened: text>]
Copies patch.diff, demo/ and meta.json of a sub-agent's mutation into /verif/seeded/<id>/ and adds
what the coordinator confirmed and which checks caught it."""
import sys, json, shutil, os
sid, src, confirmed, results = sys.argv[1:5]
strengthened = sys.argv[5] if len(sys.argv) > 5 else ""
dst = f"/verif/seeded/{sid}"
os.makedirs(dst, exist_ok=True)
shutil.copy(f"{src}/patch.diff", f"{dst}/patch.diff")
if os.path.isdir(f"{dst}/demo"): shutil.rmtree(f"{dst}/demo")
shutil.copytree(f"{src}/demo", f"{dst}/demo")
meta = json.load(open(f"{src}/meta.json"))
meta["id"] = sid
meta["author"] = "independent sub-agent (saw only the property text and a scratch worktree of /repo)"
meta["confirmed_by_coordinator"] = confirmed
meta["checks"] = results
if strengthened: meta["strengthened"] = strengthened
json.dump(meta, open(f"{dst}/meta.json", "w"), indent=1)
print("archived", dst)
