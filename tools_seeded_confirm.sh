#!/bin/bash
# tools_seeded_confirm.sh <worktree> <mutation dir> <demo name> [module|integration]
# Confirms, in the scratch worktree: demo passes without the patch, fails with it; suite passes
# with the patch. `module` demos are dropped into savefile-test/src/ with a `mod` line,
# `integration` demos into savefile-test/tests/.
WT="$1"; M="$2"; NAME="$3"; KIND="${4:-module}"
cd "$WT" || exit 2
git checkout -q -- . ; rm -rf savefile-test/tests "savefile-test/src/$NAME.rs"
install_demo() {
  if [ "$KIND" = integration ]; then mkdir -p savefile-test/tests; cp "$M/demo/$NAME.rs" savefile-test/tests/;
  else cp "$M/demo/$NAME.rs" savefile-test/src/; echo "mod $NAME;" >> savefile-test/src/lib.rs; fi
}
run_demo() {
  if [ "$KIND" = integration ]; then cargo test -p savefile-test --test "$NAME" --offline 2>&1 | grep -E "^test result|error(\[|:)" | head -4;
  else cargo test -p savefile-test --offline "$NAME" 2>&1 | grep -E "^test result: .* [1-9][0-9]* (passed|failed)|^test result: FAILED|error(\[|:)" | head -4; fi
}
install_demo
echo "== demo WITHOUT patch"; run_demo
git apply "$M/patch.diff" || { echo "patch does not apply"; exit 2; }
echo "== demo WITH patch"; run_demo
rm -rf savefile-test/tests "savefile-test/src/$NAME.rs"; git checkout -q -- savefile-test/src/lib.rs
echo "== suite WITH patch"; cargo nextest run --workspace --no-fail-fast --offline 2>&1 | grep -E "Summary|FAIL " | head -5
git checkout -q -- .
