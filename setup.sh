#!/bin/bash
# Build the framework from files on disk only (offline). Run once after a fresh restore.
set -e
cd "$(dirname "$0")/engine"
export CARGO_NET_OFFLINE=true
cargo run -q -p vgen -- "$(pwd)"
cargo build -q -p vseq -p vschema -p vabi15 -p vconc -p vabi09 -p vabi10 -p vintro
echo "setup done"
